#!/bin/bash
# overlay venv on top of /venv (repo deps) with CrossHair from the offline wheelhouse
set -e
cd "$(dirname "$0")"
REPO="${VF_REPO:-/repo}"
if [ -x .venv/bin/python ] && ! grep -qx "$REPO" .venv/lib/python3.12/site-packages/_overlay.pth 2>/dev/null; then rm -rf .venv; fi
if [ ! -x .venv/bin/python ] || ! .venv/bin/python -c "import crosshair, z3, apischema" 2>/dev/null; then
  rm -rf .venv
  /venv/bin/python -m venv .venv
  SP=$(.venv/bin/python -c "import site;print(site.getsitepackages()[0])")
  printf "/venv/lib/python3.12/site-packages\n%s\n" "$REPO" > "$SP/_overlay.pth"
  PIP_NO_INDEX=1 .venv/bin/pip install -q --no-index --no-deps --find-links /opt/veriftools/wheels \
    crosshair-tool z3-solver typing_inspect mypy_extensions typeshed_client importlib_metadata zipp
fi
