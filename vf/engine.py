"""Exploration loop over CrossHair's building blocks (DESIGN.md 1.2).

One call to `explore(body, ...)` symbolically executes `body(ctx)` path after path until
the decision tree is exhausted (=> verdict holds for every input in the bounds the body
builds) or a budget runs out (=> inconclusive, never reported as a pass).

`body(ctx)` runs under CrossHair tracing.  It builds its own bounded symbolic input from
`ctx` primitives, calls the real apischema code, evaluates the oracle and returns
  None                      -> path confirmed
  Failure(kind, detail, ..) -> path refuted; the witness is realised and recorded
It may raise Assume (IgnoreAttempt) to discard a path outside the stated domain.
"""
from __future__ import annotations

import functools
import sys
import time
import traceback
from dataclasses import dataclass, field
from typing import Any, Callable, Dict, List, Optional

import crosshair.core_and_libs  # noqa: F401  (registers patches)
import crosshair.statespace as _ss
from crosshair.condition_parser import condition_parser
from crosshair.core import (
    _PATCH_REGISTRATIONS,
    ExceptionFilter,
    Patched,
    deep_realize,
    proxy_for_type,
)
from crosshair.options import DEFAULT_OPTIONS
from crosshair.statespace import (
    CallAnalysis,
    RootNode,
    StateSpace,
    StateSpaceContext,
    VerificationStatus,
    context_statespace,
)
from crosshair.tracers import COMPOSITE_TRACER, NoTracing, ResumedTracing
from crosshair.util import IgnoreAttempt, NotDeterministic, UnexploredPath

# --- mandatory patch (DESIGN.md 2.2): CrossHair bypasses lru_cache, which breaks
# apischema.recursion (fresh dict per call).  Every cached function of apischema is
# keyed by concrete types/options, so keeping the real cache is sound here.
_PATCH_REGISTRATIONS.pop(functools._lru_cache_wrapper.__call__, None)
# CrossHair's getattr / hasattr / setattr patches run the real builtin under NoTracing (they
# exist for symbolic attribute *names*, which we never use): a property or __setattr__
# reached through them would execute untraced ("Numeric operation on symbolic while not
# tracing").  apischema calls getattr(obj, name) for every serialized field.
for _f in (getattr, hasattr, setattr):
    _PATCH_REGISTRATIONS.pop(_f, None)

sys.setrecursionlimit(max(sys.getrecursionlimit(), 3000))

from crosshair.libimpl.builtinslib import ModelingDirector, RealBasedSymbolicFloat  # noqa: E402

FLOAT_MODEL = "real"

Assume = IgnoreAttempt


# --------------------------------------------------------------------------- counters
class _Stats:
    solver_queries = 0
    solver_time = 0.0
    phase = "gen"
    run_decisions = 0  # decisions taken while the code under test / oracle runs


_orig_is_sat = _ss.solver_is_sat


def _counting_is_sat(solver, *exprs):
    t0 = time.perf_counter()
    try:
        return _orig_is_sat(solver, *exprs)
    finally:
        _Stats.solver_queries += 1
        _Stats.solver_time += time.perf_counter() - t0


_ss.solver_is_sat = _counting_is_sat

_orig_choose = StateSpace.choose_possible


def _counting_choose(self, *a, **kw):
    if _Stats.phase == "run":
        _Stats.run_decisions += 1
    return _orig_choose(self, *a, **kw)


StateSpace.choose_possible = _counting_choose  # type: ignore

_orig_fmv = StateSpace.find_model_value


def _counting_fmv(self, *a, **kw):
    if _Stats.phase == "run":
        _Stats.run_decisions += 1
    return _orig_fmv(self, *a, **kw)


StateSpace.find_model_value = _counting_fmv  # type: ignore


# --------------------------------------------------------------------------- context
@dataclass
class Failure:
    kind: str  # divergence kind, e.g. "accepts-nonconforming"
    detail: str = ""
    witness: Any = None  # symbolic objects, realised by the engine
    extra: Dict[str, Any] = field(default_factory=dict)


class Ctx:
    """Bounded symbolic ingredients.  Everything created here is part of the bound."""

    def __init__(self, concrete: Optional[dict] = None):
        self._n = 0
        self.concrete = concrete  # replay mode: dict name -> value
        self.trace: Dict[str, Any] = {}
        self.witness: Any = None
        self.notes: Dict[str, Any] = {}

    def _name(self, name: str) -> str:
        self._n += 1
        return f"{name}#{self._n}"

    # -- leaves
    def _leaf(self, tp, name):
        name = self._name(name)
        if self.concrete is not None:
            v = self.concrete[name]
            if tp is float and isinstance(v, str):
                v = float(v)
            self.trace[name] = v
            return v
        with NoTracing():
            v = proxy_for_type(tp, name, allow_subtypes=False)
        self.trace[name] = v
        return v

    def int(self, name="i", lo: Optional[int] = None, hi: Optional[int] = None):
        v = self._leaf(int, name)
        if lo is not None and v < lo:
            raise Assume("int below bound")
        if hi is not None and v > hi:
            raise Assume("int above bound")
        return v

    def float(self, name="f"):
        return self._leaf(float, name)

    def bool(self, name="b"):
        return self._leaf(bool, name)

    def str(self, name="s", maxlen=2):
        v = self._leaf(str, name)
        if len(v) > maxlen:
            raise Assume("str too long")
        return v

    # -- finite selectors (pure forks; enumerated, not symbolic: reported as such)
    def choice(self, k: int, name="c") -> int:
        name = self._name(name)
        if k <= 1:
            self.trace[name] = 0
            return 0
        if self.concrete is not None:
            v = self.concrete[name]
            self.trace[name] = v
            return v
        with NoTracing():
            space = context_statespace()
            r = k - 1
            for i in range(k - 1):
                if space.smt_fork(desc=f"{name}=={i}"):
                    r = i
                    break
        self.trace[name] = r
        return r

    def pick(self, seq, name="p"):
        seq = list(seq)
        return seq[self.choice(len(seq), name)]

    def flag(self, name="g") -> bool:
        return self.choice(2, name) == 1

    def run_phase(self):
        _Stats.phase = "run"


@dataclass
class Result:
    paths: int = 0
    confirmed: int = 0
    refuted: int = 0
    ignored: int = 0
    unknown: int = 0
    nontrivial: int = 0
    exhausted: bool = False
    solver_queries: int = 0
    solver_time: float = 0.0
    cpu_s: float = 0.0
    failures: List[dict] = field(default_factory=list)
    samples: List[dict] = field(default_factory=list)
    unknown_reasons: Dict[str, int] = field(default_factory=dict)
    tags: Dict[str, int] = field(default_factory=dict)

    def as_dict(self):
        return dict(self.__dict__)


def _plain(x):
    """Realised value -> JSON-friendly description (keeps runtime classes visible)."""
    import dataclasses as dc
    import enum
    import math

    if isinstance(x, bool) or x is None or isinstance(x, (int, str)):
        if type(x) not in (bool, int, str, type(None)):
            return {"__class__": type(x).__name__, "value": repr(x)}
        return x
    if isinstance(x, float):
        if math.isnan(x) or math.isinf(x):
            return {"__float__": repr(x)}
        return x
    if isinstance(x, enum.Enum):
        return {"__enum__": f"{type(x).__name__}.{x.name}"}
    if isinstance(x, list):
        return [_plain(v) for v in x]
    if isinstance(x, tuple) and not hasattr(x, "_fields"):
        return {"__tuple__": [_plain(v) for v in x]}
    if isinstance(x, (set, frozenset)):
        return {"__%s__" % type(x).__name__: sorted((_plain(v) for v in x), key=repr)}
    if isinstance(x, dict):
        if all(isinstance(k, str) for k in x):
            return {k: _plain(v) for k, v in x.items()}
        return {"__items__": [[_plain(k), _plain(v)] for k, v in x.items()]}
    if dc.is_dataclass(x) and not isinstance(x, type):
        return {
            "__obj__": type(x).__name__,
            "fields": {k: _plain(v) for k, v in vars(x).items()},
        }
    if hasattr(x, "_fields"):
        return {"__obj__": type(x).__name__, "fields": _plain(x._asdict())}
    return {"__repr__": repr(x)[:200]}


def explore(
    body: Callable[[Ctx], Optional[Failure]],
    *,
    budget_s: float = 60.0,
    path_timeout: float = 8.0,
    max_paths: int = 10**9,
    want_samples: int = 2,
    stop_after_failures: int = 25,
) -> Result:
    res = Result()
    root = RootNode()
    t_start = time.process_time()
    q0, s0 = _Stats.solver_queries, _Stats.solver_time
    seen_fail = set()
    while res.paths < max_paths:
        now = time.process_time()
        if now - t_start > budget_s:
            break
        space = StateSpace(
            execution_deadline=now + path_timeout,
            model_check_timeout=path_timeout / 2,
            search_root=root,
        )
        ctx = Ctx()
        _Stats.phase = "gen"
        _Stats.run_decisions = 0
        status: Optional[VerificationStatus]
        fail_rec = None
        sample_rec = None
        with condition_parser(
            DEFAULT_OPTIONS.analysis_kind
        ), Patched(), COMPOSITE_TRACER, NoTracing(), StateSpaceContext(space):
            if FLOAT_MODEL == "real":
                # z3 cannot decide Int -> IEEE conversions (probed: `unknown` after 20 s
                # even for |i| <= 1000); floats are modelled as reals plus NaN / +-inf by
                # fork.  IEEE rounding is outside the claim; replay guards counterexamples.
                space.extra(ModelingDirector).global_representations[
                    float
                ] = RealBasedSymbolicFloat
            try:
                fail = None
                with ExceptionFilter() as ef, ResumedTracing():
                    fail = body(ctx)
                if ef.ignore:
                    status = None
                elif ef.user_exc is not None:
                    exc, tb = ef.user_exc
                    if isinstance(exc, NotDeterministic):
                        raise UnexploredPath()
                    fail = Failure(
                        "harness-exception",
                        f"{type(exc).__name__}: {exc}",
                        extra={"tb": "".join(tb.format()[-6:])},
                    )
                if not ef.ignore:
                    if fail is not None:
                        with ResumedTracing():
                            space.detach_path()
                        trace = deep_realize(dict(ctx.trace))
                        wit = deep_realize(fail.witness)
                        fail_rec = {
                            "kind": fail.kind,
                            "detail": str(deep_realize(fail.detail))[:600],
                            "inputs": trace,
                            "witness": _plain(wit),
                            "extra": {
                                k: _plain(deep_realize(v))
                                for k, v in fail.extra.items()
                            },
                        }
                        status = VerificationStatus.REFUTED
                    else:
                        status = VerificationStatus.CONFIRMED
                        if len(res.samples) < want_samples and _Stats.run_decisions:
                            with ResumedTracing():
                                space.detach_path()
                            sample_rec = {
                                "inputs": deep_realize(dict(ctx.trace)),
                                "witness": _plain(deep_realize(ctx.witness)),
                                "notes": _plain(deep_realize(ctx.notes)),
                            }
            except IgnoreAttempt:
                status = None
            except UnexploredPath as e:
                status = VerificationStatus.UNKNOWN
                r = type(e).__name__
                res.unknown_reasons[r] = res.unknown_reasons.get(r, 0) + 1
            _, exhausted = space.bubble_status(CallAnalysis(status))
        res.paths += 1
        if status is None:
            res.ignored += 1
        elif status == VerificationStatus.CONFIRMED:
            res.confirmed += 1
            if _Stats.run_decisions:
                res.nontrivial += 1
            if sample_rec:
                res.samples.append(sample_rec)
            for k, v in ctx.notes.items():
                if k.startswith("tag:") and v is True:
                    res.tags[k[4:]] = res.tags.get(k[4:], 0) + 1
        elif status == VerificationStatus.REFUTED:
            res.refuted += 1
            for k, v in ctx.notes.items():
                if k.startswith("tag:") and v is True:
                    res.tags[k[4:]] = res.tags.get(k[4:], 0) + 1
            key = (fail_rec["kind"], repr(fail_rec["witness"]))
            if key not in seen_fail:
                seen_fail.add(key)
                res.failures.append(fail_rec)
            if len(res.failures) >= stop_after_failures:
                break
        else:
            res.unknown += 1
        if exhausted:
            res.exhausted = True
            break
    res.solver_queries = _Stats.solver_queries - q0
    res.solver_time = round(_Stats.solver_time - s0, 3)
    res.cpu_s = round(time.process_time() - t_start, 3)
    # an exhausted tree with unknown leaves is not a proof of anything for those leaves
    if res.unknown:
        res.exhausted = False
    return res


def run_concrete(body: Callable[[Ctx], Optional[Failure]], inputs: dict):
    """Replay mode: the same body on realised inputs, no CrossHair involved."""
    ctx = Ctx(concrete=inputs)
    try:
        return body(ctx), ctx
    except IgnoreAttempt:
        return None, ctx
    except Exception as exc:  # same classification as under tracing
        return Failure("harness-exception", f"{type(exc).__name__}: {exc}"), ctx
