"""C09: cached methods never go stale across configuration histories (DESIGN.md 4/C09).

A history = a vector of forked operation indices with forked "observe here?" bits.  Warm run:
pristine state, apply the history with the intermediate observations, observe.  Cold run:
pristine state (registries, settings, *every* lru_cache found by gc, the dependency cache),
apply the same operations with no intermediate observation, observe.  warm == cold for all
symbolic data.  Honest scope: the history is enumerated by forks; what the solver decides is
the equivalence of the warm and cold compiled methods on all data within bounds."""
from __future__ import annotations

import functools
import gc
from typing import Optional

from vf.engine import Ctx, Failure
from vf.sym import same

SRC = '''
from dataclasses import dataclass, field
from typing import *
from apischema import (alias, schema, order, validator, ValidationError, type_name, serialized, deserializer,
    serializer, dependent_required, settings, discriminator)
from apischema.conversions import reset_deserializers, reset_serializer
from apischema.objects import ObjectField, set_object_fields
from apischema.json_schema import JsonSchemaVersion

NT = NewType("NT", int)

class Op:
    def __init__(self, v): self.v = v
    def __eq__(self, o): return type(o) is Op and o.v == self.v
    __hash__ = None

@dataclass
class P:
    x_val: int
    name: Optional[str] = None

@dataclass
class Q:
    p: P
    n: NT = 0
    items: List[int] = field(default_factory=list)

@dataclass
class R:
    o: Op
    k: int = 0

class Lf:
    def __init__(self, v): self.v = v
    def __eq__(self, o): return type(o) is Lf and o.v == self.v
    __hash__ = None

@dataclass
class Tr:
    v: int
    kids: List[Lf] = field(default_factory=list)

@dataclass
class Cat:
    m: int = 0

@dataclass
class Dog:
    w: int = 0

Pet = Annotated[Union[Cat, Dog], discriminator("type")]

@dataclass
class Animal:
    n: int = 0

@dataclass
class ACat(Animal):
    m: int = 0

@dataclass
class ADog(Animal):
    w: int = 0

@dataclass
class Zoo:
    a: Animal
    c: Optional[ACat] = None

@dataclass(init=False)
class Raw:
    a: int
    b: int = 0
    def __init__(self, a, b=0):
        self.a = a * 2
        self.b = b

@dataclass
class Nd:
    v: int
    nxt: Optional["Nd"] = None

def nd_label(n) -> str: return "nd"
def nd_conv(tp):
    # a per-call default_conversion under which Nd is not recursive any more
    from apischema.conversions import Conversion
    from apischema.conversions.converters import default_serialization
    return Conversion(nd_label, source=Nd, target=str) if tp is Nd else default_serialization(tp)

def set_kind():
    @dataclass
    class CatLike:
        m: int = 0
        kind: Literal["kitty"] = field(default="kitty", metadata=alias("type"))
    from apischema.objects import object_fields
    set_object_fields(Cat, list(object_fields(CatLike).values()))

def lower_name(tp):
    from apischema.type_names import TypeName
    return TypeName(tp.__name__.lower(), tp.__name__.lower()) if isinstance(tp, type) and hasattr(tp, "__name__") else None

def lf_from_int(i: int) -> Lf: return Lf(i)
def lf_from_tr(t: Tr) -> Lf: return Lf(t)
def op_from(i: int) -> Op: return Op(i)
def op_from_str(s: str) -> Op: return Op(s)
def op_to(o: Op) -> int: return o.v
def p_check(p: P):
    if p.x_val > 5: raise ValidationError("x too big")
def p_double(p: P) -> int: return p.x_val * 2
def upper(s): return s.upper()
def prefix(s): return "x_" + s
def base_field(tp, name, alias_): return schema(description="d:" + name)
def base_type(tp): return schema(title="t") if tp is P else None
def tname(tp): return None
'''


def ops(ns):
    """name -> callable applying one configuration operation"""
    from apischema import settings

    S = settings
    o = {}

    def setter(obj, attr, value):
        return lambda: setattr(obj, attr, value)

    o["(no change)"] = lambda: None
    o["additional_properties=True"] = setter(S, "additional_properties", True)
    o["aliaser=prefix"] = setter(S, "aliaser", ns["prefix"])
    o["camel_case=True"] = setter(S, "camel_case", True)
    o["json_schema_version=DRAFT_7"] = setter(S, "json_schema_version", ns["JsonSchemaVersion"].DRAFT_7)
    o["default_type_name=none"] = setter(S, "default_type_name", ns["tname"])
    o["default_type_name=lower"] = setter(S, "default_type_name", ns["lower_name"])
    o["deserialization.coerce=True"] = setter(S.deserialization, "coerce", True)
    o["deserialization.fall_back_on_default=True"] = setter(S.deserialization, "fall_back_on_default", True)
    o["deserialization.override_dataclass_constructors=True"] = setter(S.deserialization, "override_dataclass_constructors", True)
    o["serialization.exclude_none=True"] = setter(S.serialization, "exclude_none", True)
    o["serialization.exclude_defaults=True"] = setter(S.serialization, "exclude_defaults", True)
    o["serialization.check_type=True"] = setter(S.serialization, "check_type", True)
    o["errors.missing_property"] = setter(S.errors, "missing_property", "MISSING!")
    o["errors.minimum"] = setter(S.errors, "minimum", "too small {}")
    o["base_schema.field"] = setter(S.base_schema, "field", ns["base_field"])
    o["base_schema.type"] = setter(S.base_schema, "type", ns["base_type"])
    o["deserializer(Op<-int)"] = lambda: ns["deserializer"](ns["op_from"])
    o["deserializer(Op<-str)"] = lambda: ns["deserializer"](ns["op_from_str"])
    o["reset_deserializers(Op)"] = lambda: ns["reset_deserializers"](ns["Op"])
    import apischema.cache

    o["cache.set_size(64)"] = lambda: apischema.cache.set_size(64)
    o["deserializer(Lf<-int)"] = lambda: ns["deserializer"](ns["lf_from_int"])
    o["deserializer(Lf<-Tr)"] = lambda: ns["deserializer"](ns["lf_from_tr"])
    o["serializer(Op->int)"] = lambda: ns["serializer"](ns["op_to"])
    o["reset_serializer(Op)"] = lambda: ns["reset_serializer"](ns["Op"])
    o["set_object_fields(P)"] = lambda: ns["set_object_fields"](ns["P"], [ns["ObjectField"]("x_val", int)])
    o["set_object_fields(P,None)"] = lambda: ns["set_object_fields"](ns["P"], None)
    o["type_name(P)"] = lambda: ns["type_name"]("PP")(ns["P"])
    o["schema(min=3)(NT)"] = lambda: ns["schema"](min=3)(ns["NT"])
    o["schema(max=1)(NT)"] = lambda: ns["schema"](max=1)(ns["NT"])
    o["alias(upper)(P)"] = lambda: ns["alias"](ns["upper"])(ns["P"])
    o["order(P)"] = lambda: ns["order"]({"name": ns["order"](-1)})(ns["P"])
    o["validator(P)"] = lambda: ns["validator"](ns["p_check"])
    o["dependent_required(P)"] = lambda: ns["dependent_required"]({"name": ["x_val"]}, owner=ns["P"])
    o["discriminator(type)(Animal)"] = lambda: ns["discriminator"]("type")(ns["Animal"])
    o["set_object_fields(Cat,kind)"] = lambda: ns["set_kind"]()
    o["serialized(P)"] = lambda: ns["serialized"](owner=ns["P"])(ns["p_double"])
    return o


def registries():
    """every mutable registry of apischema: CacheAwareDict instances + the plain ones"""
    import apischema.schemas
    import apischema.validation.dependencies
    from apischema.cache import CacheAwareDict

    regs = [x.wrapped for x in gc.get_objects() if isinstance(x, CacheAwareDict)]
    regs.append(apischema.validation.dependencies.cache)
    # every other module-level mutable container of apischema (whatever it is used for):
    # a cold start has them as they are after import
    import sys

    seen = {id(r) for r in regs}
    for name, mod in list(sys.modules.items()):
        if name == "apischema" or name.startswith("apischema."):
            for vname, v in list(vars(mod).items()):
                if vname.startswith("__"):
                    continue  # __builtins__, __all__, ...
                if isinstance(v, CacheAwareDict):
                    v = v.wrapped
                if isinstance(v, (dict, set, list)) and id(v) not in seen and not isinstance(v, type):
                    seen.add(id(v))
                    regs.append(v)
    return regs


def copy1(v):
    if isinstance(v, list):
        return list(v)
    if isinstance(v, dict):
        return dict(v)
    return v


class World:
    """pristine snapshot of the process-global configuration + restore"""

    def __init__(self):
        from apischema import settings

        self.regs = registries()
        self.snap = [{k: copy1(v) for k, v in r.items()} if isinstance(r, dict) else list(r) for r in self.regs]
        self.classes = [settings, settings.errors, settings.base_schema, settings.deserialization, settings.serialization]
        self.attrs = [{k: v for k, v in vars(c).items() if not k.startswith("__")} for c in self.classes]
        self.caches = [x for x in gc.get_objects() if isinstance(x, functools._lru_cache_wrapper)]

    def restore(self):
        for r, snap in zip(self.regs, self.snap):
            if isinstance(r, dict):
                r.clear()
                r.update({k: copy1(v) for k, v in snap.items()})
            elif isinstance(r, set):
                r.clear()
                r.update(snap)
            else:
                r[:] = snap
        for c, attrs in zip(self.classes, self.attrs):
            for k, v in attrs.items():
                if vars(c).get(k, None) is not v:
                    type.__setattr__(c, k, v)
        # cache.set_size rebinds the cached functions in their modules: bind the originals back
        import sys

        import apischema.cache

        for cached in apischema.cache._cached:
            w = cached.__wrapped__
            setattr(sys.modules[w.__module__], w.__name__, cached)
        self.clear_caches()

    def clear_caches(self):
        # module-level caches found once by gc; those created later hang below them
        for c in self.caches:
            try:
                c.cache_clear()
            except Exception:
                pass


OBS = ["deserialize(Q)", "serialize(Q)", "deserialization_schema(Q)", "serialization_schema(Q)", "deserialize(R)", "serialize(R)", "deserialize(Tr)", "deserialize(Pet)", "serialize(Pet)",
       "deserialize(Raw)", "deserialize(Zoo)", "serialize(Zoo)", "deserialization_schema(Zoo)", "serialization_schema(Zoo)"]


def jobs(prop, tier, seed):
    out = []
    n_ops = 37
    for first in range(n_ops):
        for obs in OBS:
            if tier == "quick":
                # observe / change / observe for every operation and observation kind; a second
                # operation only for the two main observation kinds
                length = 2 if obs in ("deserialize(Q)", "serialize(Q)") else 1
            else:
                length = 2
            out.append(dict(harness="C09", pid=f"op{first}", first=first, obs=obs, length=length, opts={}, bounds={}, budget_s=(150 if length == 2 and obs == "deserialize(Q)" else 30) if tier == "quick" else 300))
            # the same history after cache.set_size(): the caches are rebuilt, and the code that
            # imported a cached function by name keeps the replaced one
            out.append(dict(harness="C09", pid=f"op{first}", first=first, obs=obs, length=1 if tier == "quick" else 2, opts={"resized": True}, bounds={}, budget_s=30 if tier == "quick" else 300))
    # earlier *uses* with other per-call options are part of a history too: the intermediate
    # observations are made with a per-call default_conversion (under which Nd is flat), the
    # final one without
    for first in range(n_ops):
        out.append(dict(harness="C09", pid=f"op{first}", first=first, obs="serialize(Nd)", length=1, opts={"alt": True}, bounds={}, budget_s=30 if tier == "quick" else 120))
        out.append(dict(harness="C09", pid=f"op{first}", first=first, obs="serialize(Nd)", length=1, opts={}, bounds={}, budget_s=30 if tier == "quick" else 120))
    return out


class Inst:
    def __init__(self, job):
        from vf.specs import exec_module

        self.method_note = 'histories enumerated by forks; compilation concrete (NoTracing); warm vs cold compiled methods compared on symbolic data'
        self.job = job
        mod = exec_module("vf_c09_prog", SRC)
        self.ns = mod.__dict__
        self.ops = ops(self.ns)
        self.names = sorted(self.ops)
        self.world = World()
        self.obs = job["obs"]
        self.functions = [
            "apischema.cache.reset", "apischema.cache.CacheAwareDict.__setitem__ / __delitem__", "apischema.settings.ResetCache.__setattr__",
            "apischema.deserialization.deserialization_method_factory (@cache)", "apischema.serialization.serialization_method_factory (@cache)",
            "apischema.recursion.is_recursive (@cache)", "apischema.objects.getters.object_fields (@cache)",
            "compiled method trees of Q / R (executed symbolically)",
        ]
        self.expect_tags = ["compared"]
        self.assumptions = ["histories of length <= 2 after an optional initial observation, enumerated by forks"]
        self.relax = ()

    # ---- one observation; compile concretely, execute on symbolic data
    def observe(self, data, alt=False):
        from crosshair.tracers import NoTracing

        from apischema import ValidationError, deserialization_method, serialization_method
        from apischema.json_schema import deserialization_schema, serialization_schema

        ns = self.ns
        kind = self.obs
        tp = ns["Nd"] if "(Nd)" in kind else ns["Raw"] if "(Raw)" in kind else ns["Zoo"] if "(Zoo)" in kind else ns["R"] if "(R)" in kind else ns["Tr"] if "(Tr)" in kind else ns["Pet"] if "(Pet)" in kind else ns["Q"]

        def compile_():
            try:
                if kind.startswith("deserialize"):
                    return ("m", deserialization_method(tp))
                if kind.startswith("serialize"):
                    if alt:
                        return ("m", serialization_method(tp, default_conversion=ns["nd_conv"]))
                    return ("m", serialization_method(tp))
                if kind.startswith("deserialization_schema"):
                    return ("v", dict(deserialization_schema(tp)))
                return ("v", dict(serialization_schema(tp)))
            except Exception as e:
                return ("raise", type(e).__name__)

        if self.concrete:
            c = compile_()
        else:
            with NoTracing():
                c = compile_()
        if c[0] != "m":
            return c
        try:
            return ("ok", c[1](data))
        except ValidationError as e:
            return ("err", e.errors)
        except Exception as e:
            return ("raise", type(e).__name__)

    def make_data(self, ctx):
        ns = self.ns
        if self.obs == "deserialize(Q)":
            d = {"p": {"x_val": ctx.int("x")}, "n": ctx.int("n")}
            if ctx.flag("name"):
                d["p"]["name"] = ctx.str("s", 1)
            if ctx.flag("extra"):
                d["zz"] = 0
            if ctx.flag("alt"):
                d["p"] = {"X_VAL": ctx.int("x2")}
            return d
        if self.obs == "serialize(Q)":
            return ns["Q"](ns["P"](ctx.int("x"), None if ctx.flag("none") else "s"), ctx.int("n"), [])
        if self.obs == "deserialize(R)":
            return {"o": ctx.int("o") if ctx.flag("int") else "s", "k": ctx.int("k")}
        if self.obs == "serialize(R)":
            return ns["R"](ns["Op"](ctx.int("o")), ctx.int("k"))
        if self.obs == "deserialize(Pet)":
            d = {"type": ctx.pick(["Cat", "cat", "Dog", "dog", "kitty"], "t")}
            if ctx.flag("m"):
                d["m"] = ctx.int("m")
            return d
        if self.obs == "serialize(Pet)":
            return ns["Cat"](ctx.int("m")) if ctx.flag("cat") else ns["Dog"](ctx.int("w"))
        if self.obs == "deserialize(Raw)":
            d = {"a": ctx.int("a")}
            if ctx.flag("b"):
                d["b"] = ctx.int("b")
            return d
        if self.obs == "deserialize(Zoo)":
            a = {"n": ctx.int("n")}
            if ctx.flag("type"):
                a["type"] = ctx.pick(["ACat", "ADog", "Animal"], "t")
            if ctx.flag("m"):
                a["m"] = ctx.int("m")
            d = {"a": a}
            if ctx.flag("c"):
                d["c"] = {"m": ctx.int("cm"), "type": "ACat"} if ctx.flag("ctype") else {"m": ctx.int("cm")}
            return d
        if self.obs == "serialize(Zoo)":
            a = ns["ACat"](ctx.int("n"), ctx.int("m")) if ctx.flag("cat") else ns["ADog"](ctx.int("n"), ctx.int("w"))
            return ns["Zoo"](a, ns["ACat"](0, ctx.int("cm")) if ctx.flag("c") else None)
        if self.obs == "serialize(Nd)":
            return ns["Nd"](ctx.int("v"), ns["Nd"](ctx.int("w")) if ctx.flag("nxt") else None)
        if self.obs == "deserialize(Tr)":
            kid = ctx.int("kid") if ctx.flag("int") else {"v": ctx.int("kv"), "kids": [ctx.int("kk")] if ctx.flag("deep") else []}
            return {"v": ctx.int("v"), "kids": [kid] if ctx.flag("kid") else []}
        return None

    def run(self, history, data, intermediate):
        from crosshair.tracers import NoTracing

        def quiet(fn):
            if self.concrete:
                return fn()
            with NoTracing():
                return fn()

        quiet(self.world.restore)
        if self.job.get("opts", {}).get("resized"):
            quiet(self.ops["cache.set_size(64)"])
        for name, obs_before in history:
            if intermediate and obs_before:
                self.observe(data, alt=bool(self.job.get("opts", {}).get("alt")))
            quiet(self.ops[name])
        return self.observe(data)

    def body(self, ctx: Ctx) -> Optional[Failure]:
        self.concrete = ctx.concrete is not None
        first = self.names[self.job["first"] % len(self.names)]
        history = [(first, ctx.flag("observe-before"))]
        for _ in range(self.job["length"] - 1):
            if ctx.flag("more"):
                history.append((ctx.pick(self.names, "op"), ctx.flag("observe-before")))
        data = self.make_data(ctx)
        ctx.witness = {"history": [[n, bool(b)] for n, b in history], "data": data}
        ctx.run_phase()
        try:
            warm = self.run(history, data, True)
            cold = self.run(history, data, False)
        finally:
            if self.concrete:
                self.world.restore()
            else:
                from crosshair.tracers import NoTracing

                with NoTracing():
                    self.world.restore()
        ctx.notes["tag:compared"] = True
        ok = warm[0] == cold[0] and (same(warm[1], cold[1]) if warm[0] in ("ok", "v") else warm[1] == cold[1])
        if not ok:
            return Failure("stale-after-history", witness=ctx.witness, extra={"warm": warm, "cold": cold})
        return None


def make(job):
    return Inst(job)
