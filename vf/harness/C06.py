"""C06: deserialize and deserialization_schema agree on what is valid (DESIGN.md 4/C06).

The schema is generated concretely by the real builder for each program / option set; the
datum is symbolic; the schema side is judged by vf/oracle/jsvalid.py (cross-checked against
the `jsonschema` library on realised triples, vf/jscheck.py)."""
from __future__ import annotations

from typing import Optional

from vf import pools
from vf.engine import Assume, Ctx, Failure
from vf.harness.common import api_kwargs, bounds_of, get_aliaser, method_classes, program_of, ref_opts, self_of
from vf.harness.deser_e2e import has_obj, n_positions
from vf.oracle.deser import RefDeser
from vf.oracle.jsvalid import D2020, DanglingRef, Evaluator, OutsideDomain
from vf.specs import walk
from vf.sym import Gen

OBJ_OPTS = [{}, {"additional_properties": True}, {"aliaser": "prefix"}, {"all_refs": True}]


def jobs(prop, tier, seed):
    out = []
    from vf.harness.deser_e2e import CALL_ARGS

    for pid, (cs, _) in CALL_ARGS.items():  # per-call schema= on both sides
        b = dict(depth=2, width=2, strlen=2, budget=1, distinct_sets=True)
        out.append(dict(harness="C06", pool="data", pid=pid, opts={"call_schema": [list(c) for c in cs]}, bounds=b, budget_s=30))
    data_ids = pools.ids("data", tier)
    todo = [("data", pid) for pid in data_ids + pools.random_ids(seed, 8 if tier == "quick" else 60)]
    todo += [("union", pid) for pid in pools.ids("union", tier) if pid not in data_ids]
    for pool, pid in todo:
        spec, _ = pools.get(pool, pid)
        if pid == "DiscSubRec":
            continue  # both discriminator findings at once on the same definition (lone subclass + in-union): neither witness predicate can arbitrate
        if any(s.k == "obj" and any(f.fall_back for f in s.a) for s in walk(spec)):
            continue  # fall_back_on_default metadata is not in the type space of C06
        optsets = [{}]
        if has_obj(spec):
            optsets = OBJ_OPTS if tier == "thorough" else OBJ_OPTS[:3]
        big = n_positions(spec) >= 8
        for o in optsets:
            if tier == "quick":
                b = dict(depth=2, width=2, strlen=2, budget=1 if big else 2, distinct_sets=True)
                budget_s = 60 if n_positions(spec) >= 5 else 25
            else:
                b = dict(depth=3, width=2 if big else 3, strlen=3, budget=2 if big else 3, distinct_sets=True)
                budget_s = 120
            out.append(dict(harness="C06", pool=pool, pid=pid, opts=o, bounds=b, budget_s=budget_s))
    return out


def plain_json(x) -> bool:
    if x is None or type(x) in (bool, int, str):
        return True
    if type(x) is float:
        return x == x and x not in (float("inf"), float("-inf"))
    if type(x) is list:
        return all(plain_json(v) for v in x)
    if type(x) is dict:
        return all(type(k) is str and not k.startswith("__") and plain_json(v) for k, v in x.items())
    return False


def schema_kwargs(o: dict) -> dict:
    kw = {}
    for k in ("additional_properties", "all_refs"):
        if k in o:
            kw[k] = o[k]
    if o.get("aliaser"):
        kw["aliaser"] = get_aliaser(o["aliaser"])
    return kw


def repair_flatten(sch, additional=False, root=None):
    """the schema as it would be without the known flattened-object defect: inside an
    allOf closed by unevaluatedProperties, members do not close themselves"""
    if root is None:
        root = sch
    if isinstance(sch, dict):
        out = {k: repair_flatten(v, additional, root) for k, v in sch.items()}
        if "allOf" in out and "unevaluatedProperties" in out:
            # members do not close themselves (nor, for nested flattening, their own allOf);
            # a member given by reference (all_refs) is judged as its definition, inlined
            members = []
            for m in out["allOf"]:
                if isinstance(m, dict) and set(m) == {"$ref"} and isinstance(root, dict):
                    target = root.get("$defs", {}).get(str(m["$ref"]).rsplit("/", 1)[-1])
                    if isinstance(target, dict):
                        m = repair_flatten(target, additional, root)
                members.append({k: v for k, v in m.items() if k not in ("additionalProperties", "unevaluatedProperties")} if isinstance(m, dict) else m)
            out["allOf"] = members
            if additional:  # ... and the closing keyword follows the additional_properties option
                del out["unevaluatedProperties"]
        return out
    if isinstance(sch, list):
        return [repair_flatten(v, additional, root) for v in sch]
    return sch


def repair_discriminator(sch, spec, aliaser, additional=False):
    """the schema as it would be if the discriminator property belonged to the alternatives
    (known finding KF-discriminator-schema): every alternative of a discriminated union
    allows and requires the property, with the keys mapped to it as only values; the
    subclasses of an inherited discriminator are closed like any other object"""
    import copy

    aliaser = aliaser or (lambda name: name)
    sch = copy.deepcopy(sch)
    defs = sch.get("$defs", {})
    for node in walk(spec):
        if node.k != "disc":
            continue
        p = aliaser(node.opt("alias"))
        keys = {}
        for key, cname in node.opt("mapping"):
            keys.setdefault(cname, []).append(key)
        for cname, ks in keys.items():
            D = defs.get(cname)
            if not isinstance(D, dict):
                return None
            declared = set(D.get("properties", {}))
            for m in D.get("allOf", []):
                if isinstance(m, dict) and "$ref" not in m:
                    declared |= set(m.get("properties", {}))
            if p not in declared:  # else a field of the alternative (Literal), only made required
                D["properties"] = {**D.get("properties", {}), p: {"enum": list(ks)}}
            D["required"] = list(D.get("required", [])) + [p]
            if node.opt("inherited") and not additional:
                D["unevaluatedProperties"] = False
    return sch


def repair_lone_subclass(sch, additional=False):
    """the schema as it would be if a subclass of a discriminated class, used on its own,
    were described as the object deserialize / serialize handle (known finding
    KF-discriminated-subclass-alone): without the reference to the parent (which requires
    the discriminator property) and closed like any other object"""
    defs = sch.get("$defs", {}) if isinstance(sch, dict) else {}

    def rec(x):
        if isinstance(x, list):
            return [rec(v) for v in x]
        if not isinstance(x, dict):
            return x
        all_of = x.get("allOf")
        if (
            isinstance(all_of, list) and len(all_of) == 2 and isinstance(all_of[0], dict) and set(all_of[0]) == {"$ref"}
            and "discriminator" in defs.get(str(all_of[0]["$ref"]).rsplit("/", 1)[-1], {})
        ):
            own = dict(rec(all_of[1]))
            if not additional:
                own["additionalProperties"] = False
            return {**{k: rec(v) for k, v in x.items() if k != "allOf"}, **own}
        return {k: rec(v) for k, v in x.items()}

    return rec(sch)


class Inst:
    def __init__(self, job):
        from apischema import ValidationError, deserialization_method
        from apischema.json_schema import deserialization_schema

        self.job = job
        self.prog = program_of(job)
        o = job.get("opts", {})
        self.kw = api_kwargs(job)
        skw = schema_kwargs(o)
        if o.get("call_schema"):
            from apischema import schema as _schema

            call = _schema(**{k: v for k, v in o["call_schema"]})
            self.kw["schema"] = call
            skw["schema"] = call
        self.method = deserialization_method(self.prog.tp, **self.kw)
        self.schema_error = None
        try:
            self.schema = dict(deserialization_schema(self.prog.tp, **skw))
        except Exception as e:  # a supported type without a schema: reported from body()
            self.schema, self.schema_error = {}, type(e).__name__
        self.opts = ref_opts(job)
        self.bounds = bounds_of(job)
        self.VE = ValidationError
        self.functions = method_classes(self_of(self.method)) + [
            "apischema.json_schema.schema.deserialization_schema (concrete, per program)",
        ]
        from vf.harness.deser_e2e import accepts_all

        self.expect_tags = ["both-accept"] + ([] if accepts_all(self.prog.spec) else ["both-reject"])
        self.assumptions = [
            "common semantic domain of the property: no integer-valued float where an integer is expected, "
            "no NaN under numeric keywords, multipleOf on integers only, start-anchored patterns",
        ]
        self.relax = ()
        self.repair = False
        self.repair_disc = False
        self.repair_lone = False
        self.want_samples = 6

    def js_triples(self, witnesses):
        out = []
        for w in witnesses:
            if not plain_json(w):
                continue
            try:
                v = Evaluator(self.schema, D2020).valid(w)
            except Exception:
                continue
            out.append({"schema": self.schema, "dialect": D2020, "instance": w, "verdict": v})
        return out

    def body(self, ctx: Ctx) -> Optional[Failure]:
        if self.schema_error:
            ctx.run_phase()
            return Failure("schema-generation-raises", self.schema_error, witness=None, extra={"exc": self.schema_error})
        g = Gen(ctx, self.prog, self.bounds, self.opts)
        d = g.json(self.prog.spec)
        ctx.witness = d
        ctx.run_phase()
        try:
            self.method(d)
            accepted = True
        except self.VE:
            accepted = False
        except Exception:
            ctx.notes["tag:crash"] = True
            return None
        sch = self.schema
        if self.repair:
            sch = repair_flatten(sch, self.job.get("opts", {}).get("additional_properties", False))
        if self.repair_disc:
            o = self.job.get("opts", {})
            sch = repair_discriminator(sch, self.prog.spec, get_aliaser(o.get("aliaser")), o.get("additional_properties", False))
            if sch is None:
                return Failure("discriminator-repair-impossible", witness=d)
        if self.repair_lone:
            sch = repair_lone_subclass(sch, self.job.get("opts", {}).get("additional_properties", False))
        try:
            valid = Evaluator(sch, D2020).valid(d)
        except OutsideDomain:
            raise Assume("outside the common semantic domain")
        except DanglingRef as e:
            return Failure("ill-founded-ref" if type(e).__name__ == "IllFounded" else "dangling-ref", str(e), witness=d)
        if self.relax:
            # known-finding arbitration: the strict reference sides with the schema and
            # the relaxed reference (semantics of the defect) sides with the real code
            strict, _ = RefDeser(self.prog, self.opts).run(d)
            relaxed, _ = RefDeser(self.prog, self.opts, self.relax).run(d)
            if (not strict) == valid and (not relaxed) == accepted:
                return None
            if (not relaxed) == valid and (not strict) == accepted:
                return None  # the defect is on the schema side
        if accepted and valid:
            ctx.notes["tag:both-accept"] = True
        if not accepted and not valid:
            ctx.notes["tag:both-reject"] = True
        if accepted != valid:
            kind = "deser-accepts-schema-rejects" if accepted else "deser-rejects-schema-accepts"
            return Failure(kind, witness=d, extra={"schema": self.schema})
        return None


def make(job):
    return Inst(job)
