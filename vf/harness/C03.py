"""C03: deserialization is total, pure and crash-free on arbitrary input (DESIGN.md 4/C03).

variants:
  e2e    - compiled method tree on JSON + exotic data, coerce on/off, option sets
  coerce - the coercion kernel `coerce(cls, data)` driven as a unit
"""
from __future__ import annotations

from typing import Optional

from vf import pools
from vf.engine import Ctx, Failure
from vf.harness.common import api_kwargs, bounds_of, method_classes, program_of, ref_opts, self_of, tree_state
from vf.harness.deser_e2e import has_obj, n_positions
from vf.sym import Bounds, Gen, snapshot

PRIMS = ["int", "float", "str", "bool", "NoneType"]


def jobs(prop, tier, seed):
    out = []
    for pid in pools.ids("data", tier):
        spec, _ = pools.get("data", pid)
        optsets = [{}, {"coerce": True}]
        if tier == "thorough":
            optsets.append({"no_copy": False})
        if has_obj(spec):
            if tier == "thorough":
                optsets += [{"additional_properties": True}, {"fall_back_on_default": True}, {"fall_back_on_default": True, "coerce": True}]
            else:
                optsets[1] = {"fall_back_on_default": True, "coerce": True}
        big = n_positions(spec) >= 6
        for o in optsets:
            if tier == "quick":
                b = dict(depth=2, width=2, strlen=2, budget=1, exotic=True)
                budget_s = 30 if big else 15
            else:
                b = dict(depth=3, width=2, strlen=2, budget=2, exotic=True, rich=not big)
                budget_s = 150
            if o.get("coerce"):
                b = dict(b, int_abs=99 if tier == "quick" else 999, float_pool=True, str_pool=True)
            out.append(dict(harness="C03", variant="e2e", pool="data", pid=pid, opts=o, bounds=b, budget_s=budget_s))
    from vf.specs import walk

    for pid in pools.ids("union", tier):
        spec, _ = pools.get("union", pid)
        if not any(x.k == "disc" or (x.k == "obj" and x.opt("tagged")) for x in walk(spec)):
            continue
        for o in ({}, {"coerce": True}):
            b = dict(depth=2, width=2, strlen=2, budget=2, exotic=True)
            if o.get("coerce"):
                b.update(int_abs=99, float_pool=True, str_pool=True)
            out.append(dict(harness="C03", variant="e2e", pool="union", pid=pid, opts=o, bounds=b, budget_s=40 if tier == "quick" else 150))
    from vf.harness.C05 import STD

    for name in sorted(STD):
        out.append(dict(harness="C03", variant="std", pid=f"std:{name}", std=name, opts={}, bounds={}, budget_s=30))
    for pid in ("Node", "Tree", "Mutual"):
        out.append(dict(harness="C03", variant="deep", pool="data", pid=pid, opts={}, bounds={}, budget_s=30))
    # an int beyond CPython's int -> str digit limit (concrete: its size is the point)
    for pid in ("int", "str", "float", "bool", "u(int,str)", "list(int)", "map(int)", "lit_mix", "enum", "any", "A"):
        if pid in pools.ids("data", "thorough"):
            for o in ({}, {"coerce": True}):
                out.append(dict(harness="C03", variant="digits", pool="data", pid=pid, opts=o, bounds={}, budget_s=20))
    for cls in PRIMS:
        out.append(
            dict(harness="C03", variant="coerce", pid=f"coerce({cls})", cls=cls, opts={},
                 bounds=dict(strlen=2 if tier == "quick" else 3, exotic=True, budget=1, depth=1,
                             int_abs=99 if tier == "quick" else 999, float_pool=True),
                 budget_s=30 if tier == "quick" else 200)
        )
    return out


def well_formed_errors(errors) -> Optional[str]:
    if not isinstance(errors, list):
        return "errors is not a list"
    for e in errors:
        if not isinstance(e, dict) or set(e) != {"loc", "err"}:
            return "entry is not {loc, err}"
        if not isinstance(e["err"], str):
            return "err is not a str"
        if not isinstance(e["loc"], list):
            return "loc is not a list"
        for k in e["loc"]:
            if not json_like(k):
                if isinstance(k, bytes):
                    return "loc element is a bytes key of the data (not JSON-serializable)"
                return "loc element is not JSON-serializable"
    return None


def json_like(x) -> bool:
    """what json.dumps accepts (the statement: `errors` is JSON-serializable)"""
    if x is None or isinstance(x, (str, int, float, bool)):
        return True
    if isinstance(x, (list, tuple)):
        return all(json_like(v) for v in x)
    if isinstance(x, dict):
        return all(isinstance(k, (str, int, float, bool)) or k is None for k in x) and all(json_like(v) for v in x.values())
    return False


class E2E:
    def __init__(self, job):
        from apischema import ValidationError, deserialization_method

        self.job = job
        self.prog = program_of(job)
        self.kw = api_kwargs(job)
        self.method = deserialization_method(self.prog.tp, **self.kw)
        self.opts = ref_opts(job)
        self.bounds = bounds_of(job)
        self.VE = ValidationError
        self.functions = method_classes(self_of(self.method)) + [
            "apischema.deserialization.coercion.coerce",
            "apischema.json_schema.types.bad_type",
            "apischema.validation.errors.ValidationError._errors",
            "apischema.validation.errors.merge_errors",
        ]
        from vf.harness.deser_e2e import accepts_all

        self.expect_tags = ["returned"] + ([] if accepts_all(self.prog.spec) else ["rejected"])
        self.assumptions = ["user classes raise nothing: generated programs have no converters/validators"]
        self.classes = [v for v in vars(self.prog.module).values() if isinstance(v, type) and v.__module__ == self.prog.module.__name__]
        self.relax = ()

    def body(self, ctx: Ctx) -> Optional[Failure]:
        g = Gen(ctx, self.prog, self.bounds, self.opts)
        d = g.json(self.prog.spec)
        ctx.witness = d
        snap = snapshot(d)
        cls_snap = [sorted(vars(c)) for c in self.classes]
        tree = tree_state(self_of(self.method))
        ctx.run_phase()
        try:
            self.method(d)
            ctx.notes["tag:returned"] = True
        except self.VE as e:
            ctx.notes["tag:rejected"] = True
            try:
                errors = e.errors
            except Exception as e2:
                return Failure("errors-not-computable", witness=d, extra={"exc": type(e2).__name__})
            bad = well_formed_errors(errors)
            if bad:
                return Failure("errors-malformed", bad, witness=d)
        except Exception as e:
            return Failure("crash", type(e).__name__, witness=d, extra={"exc": type(e).__name__})
        if snapshot(d) != snap:
            return Failure("input-mutated", witness=d)
        if [sorted(vars(c)) for c in self.classes] != cls_snap:
            return Failure("class-mutated", witness=d)
        if tree_state(self_of(self.method)) != tree:
            return Failure("compiled-method-mutated", witness=d)
        return None


class CoerceUnit:
    """coerce(cls, data) for every data kind: must return an instance of cls or raise
    ValidationError, nothing else"""

    def __init__(self, job):
        from apischema import ValidationError
        from apischema.deserialization.coercion import coerce

        self.job = job
        self.coerce = coerce
        self.cls = {"int": int, "float": float, "str": str, "bool": bool, "NoneType": type(None)}[job["cls"]]
        self.VE = ValidationError
        self.bounds = bounds_of(job)
        self.functions = ["apischema.deserialization.coercion.coerce"]
        self.expect_tags = ["returned", "rejected"]
        self.assumptions = []
        self.relax = ()

    def body(self, ctx: Ctx):
        from vf.sym import EXOTIC, KINDS

        g = Gen.__new__(Gen)
        g.ctx, g.b, g.budget = ctx, self.bounds, 1
        kind = ctx.pick(KINDS + EXOTIC, "kind")
        d = g.shallow(kind)
        if kind == "str" and ctx.flag("word"):
            # boolean words of the documented table, in symbolic case
            from vf.oracle.coerce import BOOL_WORDS

            w = ctx.pick(sorted(BOOL_WORDS), "w")
            d = "".join(ch.upper() if ctx.flag("up") else ch for ch in w)
        ctx.witness = d
        ctx.run_phase()
        try:
            r = self.coerce(self.cls, d)
        except self.VE:
            ctx.notes["tag:rejected"] = True
            return None
        except Exception as e:
            return Failure("crash", type(e).__name__, witness=d, extra={"exc": type(e).__name__})
        ctx.notes["tag:returned"] = True
        if not isinstance(r, self.cls):
            return Failure("wrong-class", witness=d, extra={"result": r})
        return None


STD_DATA = [
    "", "x", "0", "1.5", "2020-01-02", "2020-13-45", "2020-01-02T03:04:05", "03:04:05", "25:00", "12345678-1234-5678-1234-567812345678",
    "1.2.3.4", "::1", "10.0.0.0/8", "999.1.1.1", "a+b", "(", "YWI=", "YWJ", "a/b", "\x00", "NaN", "Infinity", "1e999",
    None, True, 0, 1, -1, 10**400, 1.5, float("nan"), float("inf"), [], ["x"], {}, {"a": 1},
]


class StdTotal:
    """standard-library converted types on a concrete pool of data (C parsers realise)"""

    def __init__(self, job):
        from apischema import ValidationError, deserialization_method
        from vf.harness.C05 import StdInst

        si = StdInst(job)
        self.job = job
        self.VE = ValidationError
        self.methods = [deserialization_method(si.tp), deserialization_method(si.tp, coerce=True), deserialization_method(si.W)]
        self.functions = ["apischema.std_types (converters, concrete data pool)"]
        self.expect_tags = ["returned", "rejected"]
        self.assumptions = ["realised: data from a concrete pool selected by forks; not a symbolic claim"]
        self.relax = ()

    def body(self, ctx: Ctx):
        d = ctx.pick(STD_DATA, "d")
        which = ctx.choice(3, "m")
        if which == 2:
            d = {"x": d, "xs": [d], "m": {"k": d}}
        ctx.witness = repr(d)
        ctx.run_phase()
        try:
            self.methods[which](d)
            ctx.notes["tag:returned"] = True
        except self.VE as e:
            ctx.notes["tag:rejected"] = True
            bad = well_formed_errors(e.errors)
            if bad:
                return Failure("errors-malformed", bad, witness=repr(d))
        except Exception as e:
            return Failure("crash", type(e).__name__, witness=repr(d), extra={"exc": type(e).__name__})
        return None


class Deep:
    """deeply nested data for a recursive type (concrete: the nesting depth is the point)"""

    def __init__(self, job):
        from apischema import ValidationError, deserialization_method

        self.job = job
        self.prog = program_of(job)
        self.method = deserialization_method(self.prog.tp)
        self.VE = ValidationError
        self.functions = method_classes(self_of(self.method))
        self.expect_tags = ["ran"]
        self.assumptions = ["concrete datum nested 3000 levels deep; leaves symbolic"]
        self.relax = ()

    def body(self, ctx: Ctx):
        pid = self.job["pid"]
        leaf = ctx.int("v")
        d = None
        for _ in range(3000):
            if pid == "Node":
                d = {"v": leaf, "next": d}
            elif pid == "Tree":
                d = {"v": leaf, "kids": [d] if d is not None else []}
            else:
                d = {"b": {"a": d, "n": leaf}}
        ctx.witness = "3000 nested levels"
        ctx.run_phase()
        ctx.notes["tag:ran"] = True
        try:
            self.method(d)
        except self.VE:
            pass
        except RecursionError:
            return Failure("crash", "RecursionError", witness="3000 nested levels", extra={"exc": "RecursionError"})
        except Exception as e:
            return Failure("crash", type(e).__name__, witness="3000 nested levels", extra={"exc": type(e).__name__})
        return None


class Digits:
    """10**5000 (more digits than CPython >= 3.11 converts to str by default) at the root, in
    a list and under a key: a value or ValidationError, nothing else"""

    def __init__(self, job):
        from apischema import ValidationError, deserialization_method
        from vf.harness.common import api_kwargs

        self.job = job
        self.prog = program_of(job)
        self.method = deserialization_method(self.prog.tp, **api_kwargs(job))
        self.VE = ValidationError
        self.functions = method_classes(self_of(self.method)) + ["apischema.deserialization.coercion.coerce"]
        self.expect_tags = ["ran"]
        self.assumptions = ["concrete datum 10**5000 (or its negation) at the root, in a list, under a key"]
        self.relax = ()

    def body(self, ctx: Ctx):
        big = 10**5000
        shape = ctx.pick(["root", "negative", "list", "key", "field"], "shape")
        d = {"root": big, "negative": -big, "list": [big], "key": {"k0": big}, "field": {"a": big}}[shape]
        ctx.witness = f"10**5000 as {shape}"
        ctx.run_phase()
        ctx.notes["tag:ran"] = True
        try:
            self.method(d)
        except self.VE as e:
            try:
                e.errors
            except Exception as e2:
                return Failure("crash", "errors:" + type(e2).__name__, witness=ctx.witness, extra={"exc": type(e2).__name__})
        except Exception as e:
            return Failure("crash", type(e).__name__, witness=ctx.witness, extra={"exc": type(e).__name__})
        return None


def make(job):
    v = job.get("variant")
    if v == "deep":
        return Deep(job)
    if v == "digits":
        return Digits(job)
    return CoerceUnit(job) if v == "coerce" else StdTotal(job) if v == "std" else E2E(job)
