#!/bin/bash
# tools/confirm_seed.sh <worktree> <seed-id>: copy <worktree>/seed_out to seeded/<seed-id> and confirm on
# /repo itself: patch applies, pinned tests stay green, demo fails with the change, passes without it.
set -u
wt=$1; id=$2
VERIF="$(cd "$(dirname "$0")/.." && pwd)"
dst="$VERIF/seeded/$id"; mkdir -p "$dst"
cp "$wt/seed_out/patch.diff" "$wt/seed_out/demo.py" "$dst/" || exit 2
[ -f "$wt/seed_out/notes.md" ] && cp "$wt/seed_out/notes.md" "$dst/"
sed -i "s#$wt#/repo#g" "$dst/demo.py"
cd /repo || exit 2
if [ -n "$(git status --porcelain --untracked-files=no)" ]; then echo "repo dirty"; exit 2; fi
d0=$(PYTHONPATH=/repo timeout 300 /venv/bin/python "$dst/demo.py" >/dev/null 2>&1; echo $?)
git apply "$dst/patch.diff" || { echo "PATCH-DOES-NOT-APPLY"; exit 2; }
t=$(/venv/bin/python -m pytest -q -p no:cacheprovider --timeout=900 2>&1 | tail -1)
d1=$(PYTHONPATH=/repo timeout 300 /venv/bin/python "$dst/demo.py" >/dev/null 2>&1; echo $?)
git checkout -- .
echo "$id: tests[$t] demo-without=$d0 demo-with=$d1" | tee "$dst/confirm.txt"
