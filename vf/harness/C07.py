"""C07: serialized data validates against serialization_schema (DESIGN.md 4/C07)."""
from __future__ import annotations

from typing import Optional

from vf import pools
from vf.engine import Assume, Ctx, Failure
from vf.harness.C04 import ser_kwargs
from vf.harness.C06 import plain_json
from vf.harness.common import bounds_of, get_aliaser, method_classes, program_of, self_of
from vf.harness.deser_e2e import has_obj
from vf.oracle.jsvalid import D2020, DanglingRef, Evaluator, OutsideDomain
from vf.specs import walk
from vf.sym import Val

SETTINGS = [
    {},
    {"exclude_defaults": True},
    {"exclude_none": True},
    {"exclude_defaults": True, "exclude_none": True},
]
EXTRA = [{"aliaser": "prefix"}, {"additional_properties": True}, {"aliaser": "prefix", "exclude_none": True}]


def jobs(prop, tier, seed):
    out = []
    ser_ids = pools.ids("ser", tier)
    todo = [("ser", pid) for pid in ser_ids] + [("union", pid) for pid in pools.ids("union", tier) if pid not in ser_ids]
    for pool, pid in todo:
        spec, _ = pools.get(pool, pid)
        if pid == "DiscSubRec":
            continue  # both discriminator findings at once on the same definition (lone subclass + in-union): neither witness predicate can arbitrate
        if any(s.k == "obj" and s.opt("fields_set") for s in walk(spec)):
            continue  # unset-tracking is excluded by the statement
        if any(s.k == "enum" and any(not isinstance(v, (int, str, float, bool)) for v in s.a) for s in walk(spec)):
            continue  # serialization-only enum: no schema
        optsets = (SETTINGS + EXTRA) if has_obj(spec) else [{}]
        for o in optsets:
            b = dict(depth=2, width=2, strlen=2) if tier == "quick" else dict(depth=3, width=3, strlen=3)
            out.append(dict(harness="C07", pool=pool, pid=pid, opts=o, bounds=b, budget_s=25 if tier == "quick" else 120))
    return out


def strip_keyword(sch, kw):
    if isinstance(sch, dict):
        return {k: strip_keyword(v, kw) for k, v in sch.items() if k != kw}
    if isinstance(sch, list):
        return [strip_keyword(v, kw) for v in sch]
    return sch


class Inst:
    def __init__(self, job):
        from apischema import serialization_method, settings
        from apischema.json_schema import serialization_schema

        self.job = job
        o = job.get("opts", {})
        # global settings, as the property says (the worker process is private to the job)
        settings.serialization.exclude_defaults = o.get("exclude_defaults", False)
        settings.serialization.exclude_none = o.get("exclude_none", False)
        self.prog = program_of(job)
        kw = {}
        if o.get("aliaser"):
            kw["aliaser"] = get_aliaser(o["aliaser"])
        if "additional_properties" in o:
            kw["additional_properties"] = o["additional_properties"]
        self.method = serialization_method(self.prog.tp, **kw)
        self.schema_error = None
        try:
            self.schema = dict(serialization_schema(self.prog.tp, **kw))
        except Exception as e:  # a supported type without a schema: reported from body()
            self.schema, self.schema_error = {}, type(e).__name__
        self.bounds = bounds_of(job)
        self.functions = (method_classes(self_of(self.method)) or ["apischema.serialization.methods.IdentityMethod.serialize"]) + [
            "apischema.json_schema.schema.serialization_schema (concrete, per program and settings)"
        ]
        self.expect_tags = ["validated"]
        self.assumptions = ["values satisfy the schema constraints of their type (assumed at generation)"]
        self.relax = ()
        self.repair = False
        self.repair_disc = False
        self.repair_lone = False
        self.drop_dependent_required = False
        self.want_samples = 5

    def js_triples(self, witnesses):
        return getattr(self, "_triples", [])

    def body(self, ctx: Ctx) -> Optional[Failure]:
        if self.schema_error:
            ctx.run_phase()
            return Failure("schema-generation-raises", self.schema_error, witness=None, extra={"exc": self.schema_error})
        v = Val(ctx, self.prog, self.bounds, respect_constraints=True).val(self.prog.spec)
        ctx.witness = v
        ctx.run_phase()
        out = self.method(v)
        sch = self.schema
        if self.repair_disc:
            from vf.harness.C06 import repair_discriminator

            o = self.job.get("opts", {})
            sch = repair_discriminator(sch, self.prog.spec, get_aliaser(o.get("aliaser")), o.get("additional_properties", False))
            if sch is None:
                return Failure("discriminator-repair-impossible", witness=v)
        if self.repair:
            from vf.harness.C06 import repair_flatten

            sch = repair_flatten(sch, self.job.get("opts", {}).get("additional_properties", False))
        if self.repair_lone:
            from vf.harness.C06 import repair_lone_subclass

            sch = repair_lone_subclass(sch, self.job.get("opts", {}).get("additional_properties", False))
        if self.drop_dependent_required:
            sch = strip_keyword(sch, "dependentRequired")
        try:
            ok = Evaluator(sch, D2020).valid(out)
        except OutsideDomain:
            raise Assume("outside the common semantic domain")
        except DanglingRef as e:
            return Failure("ill-founded-ref" if type(e).__name__ == "IllFounded" else "dangling-ref", str(e), witness=v)
        ctx.notes["tag:validated"] = True
        ctx.notes["out"] = out
        if ctx.concrete is not None and plain_json(out):
            self.__dict__.setdefault("_triples", []).append(
                {"schema": self.schema, "dialect": D2020, "instance": out, "verdict": ok}
            )
        if not ok:
            return Failure("output-invalid-against-schema", witness=v, extra={"out": out, "schema": self.schema})
        return None


def make(job):
    return Inst(job)
