"""C13: union dispatch shortcuts equal try-each-alternative semantics (DESIGN.md 4/C13).
The reference is the *real* per-alternative methods tried in order on the same datum."""
from __future__ import annotations

from typing import Optional

from vf import pools
from vf.engine import Assume, Ctx, Failure
from vf.harness.common import api_kwargs, bounds_of, method_classes, program_of, ref_opts, self_of
from vf.oracle.ser import RefSer
from vf.specs import Sp, named, tyexpr
from vf.sym import Gen, Val, same

NONE = Sp("none")


def jobs(prop, tier, seed):
    out = []
    q = tier == "quick"
    for pid in pools.ids("union", tier):
        for o in ({}, {"coerce": True}):
            b = dict(depth=2, width=2, strlen=2, budget=2) if q else dict(depth=3, width=3, strlen=3, budget=3)
            if o.get("coerce"):
                b.update(int_abs=99, float_pool=True, str_pool=True)
            out.append(dict(harness="C13", variant="deser", pool="union", pid=pid, opts=o, bounds=b, budget_s=40 if q else 150))
        b = dict(depth=2, width=2, strlen=2) if q else dict(depth=3, width=3, strlen=3)
        out.append(dict(harness="C13", variant="ser", pool="union", pid=pid, opts={}, bounds=b, budget_s=25 if q else 120))
        spec0, _ = pools.get("union", pid)
        if spec0.k == "union" and sum(1 for a in spec0.a if a.k == "obj") >= 2:
            # the same union with its alternatives in the reverse order compiled first in the
            # process: typing.Union compares equal whatever the order of its arguments
            bw = dict(depth=2, width=2, strlen=2, budget=1)
            out.append(dict(harness="C13", variant="deser", pool="union", pid=pid, opts={"warm_swapped": True}, bounds=bw, budget_s=40 if q else 150))
        if pid.startswith(("disc", "list(disc", "tagged")):
            # the discriminator key is an external name: same aliaser on both sides
            out.append(dict(harness="C13", variant="ser", pool="union", pid=pid, opts={"aliaser": "prefix"}, bounds=b, budget_s=25 if q else 120))
            bd = dict(depth=2, width=2, strlen=2, budget=2)
            out.append(dict(harness="C13", variant="deser", pool="union", pid=pid, opts={"aliaser": "prefix"}, bounds=bd, budget_s=40 if q else 150))
    return out


def flat_alts(s: Sp, cs=None):
    """alternatives as typing flattens them; constraints put on the union go to each"""
    out = []
    items = [s.a[0], NONE] if s.k == "opt" else list(s.a)
    for a in items:
        if a.k in ("opt", "union"):
            out.extend(flat_alts(a, cs))
        elif a.k == "unsup":
            continue
        elif cs and a.k != "none":
            out.append(Sp("ann", (a,), cs))
        else:
            out.append(a)
    uniq = []
    for a in out:
        if a not in uniq:
            uniq.append(a)
    return uniq


def unwrap(s: Sp):
    """(core union-like spec, wrapper kind)"""
    if s.k == "list" and s.a[0].k == "disc":
        return s.a[0], "list"
    if s.k == "ann" and s.a[0].k in ("union", "opt"):
        return s, "ann"
    if s.k == "ann" and s.a[0].k == "obj" and s.a[0].opt("tagged"):
        return s.a[0], "tagged"
    return s, None


def num_eq(a, b) -> bool:
    """equal values; int / float of equal value are equal (Union[float, int] <- 0)"""
    if isinstance(a, (int, float)) and isinstance(b, (int, float)) and not isinstance(a, bool) and not isinstance(b, bool):
        return a == b or (a != a and b != b)
    return same(a, b)


class Deser:
    def __init__(self, job):
        from apischema import ValidationError, deserialization_method

        self.job = job
        self.prog = program_of(job)
        self.kw = api_kwargs(job)
        ns = self.prog.module.__dict__
        self.core, self.wrap = unwrap(self.prog.spec)
        if job.get("opts", {}).get("warm_swapped"):
            from typing import Union, get_args

            deserialization_method(Union[tuple(reversed(get_args(self.prog.tp)))], **self.kw)
        self.U = deserialization_method(self.prog.tp, **self.kw)
        self.VE = ValidationError
        if self.wrap == "ann":
            alts = flat_alts(self.core.a[0], self.core.o)
            self.core, self.wrap = self.core.a[0], None
        elif self.core.k in ("opt", "union"):
            alts = flat_alts(self.core)
        elif self.core.k == "disc":
            alts = list(self.core.a)
        else:
            alts = []
        k = self.core.k
        self.alts = alts
        self.alt_methods = [
            deserialization_method(type(None) if a.k == "none" else eval(tyexpr(a), ns), **self.kw) for a in alts
        ]
        if k == "disc":
            by_name = {a.opt("name"): m for a, m in zip(alts, self.alt_methods)}
            self.by_key = {key: by_name[cls] for key, cls in self.core.opt("mapping")}
            if self.wrap == "list":
                self.elt = deserialization_method(eval(tyexpr(self.core), ns), **self.kw)
        self.opts = ref_opts(job)
        self.bounds = bounds_of(job)
        self.functions = sorted(set(method_classes(self_of(self.U)) + [f for m in self.alt_methods for f in method_classes(self_of(m))]))
        from vf.harness.deser_e2e import accepts_all

        self.expect_tags = ["accepted"] + ([] if accepts_all(self.prog.spec) else ["rejected"])
        self.assumptions = ["reference = the real methods of the alternatives, tried in order"]
        self.relax = ()

    def out(self, m, d):
        try:
            return ("ok", m(d))
        except self.VE as e:
            return ("err", e.errors)

    def body(self, ctx: Ctx) -> Optional[Failure]:
        d = Gen(ctx, self.prog, self.bounds, self.opts).json(self.prog.spec)
        ctx.witness = d
        ctx.run_phase()
        try:
            u = self.out(self.U, d)
        except Exception:
            ctx.notes["tag:crash"] = True  # C03's subject
            return None
        ctx.notes["tag:accepted" if u[0] == "ok" else "tag:rejected"] = True
        k = self.core.k
        if self.wrap == "tagged":
            return self.tagged(d, u)
        if self.wrap == "list":
            if not isinstance(d, list):
                return None
            elts = [self.out(self.elt, x) for x in d]
            exp_ok = all(e[0] == "ok" for e in elts)
            if (u[0] == "ok") != exp_ok:
                return Failure("list-of-discriminated-differs", witness=d, extra={"union": u, "elements": elts})
            if exp_ok and not same(u[1], [e[1] for e in elts]):
                return Failure("list-of-discriminated-differs", witness=d, extra={"union": u, "elements": elts})
            return None
        if k == "disc":
            return self.disc(d, u)
        if k == "opt" and d is None:
            return None if u == ("ok", None) else Failure("optional-rejects-none", witness=d, extra={"union": u})
        outs = [self.out(m, d) for m in self.alt_methods]
        if self.relax and "union_bytype_int" in self.relax:
            from vf.oracle.deser import RefDeser

            errs, _ = RefDeser(self.prog, self.opts, self.relax).run(d)
            if errs and u[0] == "err":
                return None
        first = next((o for o in outs if o[0] == "ok"), None)
        if (u[0] == "ok") != (first is not None):
            return Failure("accepts-iff-some-alternative", witness=d, extra={"union": u, "alternatives": outs})
        if first is not None:
            if not num_eq(u[1], first[1]):
                return Failure("value-differs-from-first-accepting", witness=d, extra={"union": u, "alternatives": outs})
            return None
        exp = sorted((repr(e["loc"]), e["err"]) for o in outs for e in o[1])
        got = sorted((repr(e["loc"]), e["err"]) for e in u[1])
        if exp != got:
            return Failure("error-multiset-differs", witness=d, extra={"union": u[1], "alternatives": [o[1] for o in outs]})
        return None

    def disc(self, d, u):
        alias = self.opts.aliaser(self.core.opt("alias"))
        if not isinstance(d, dict):
            return None if u[0] == "err" else Failure("discriminated-accepts-non-object", witness=d)
        if alias not in d:
            ok = u[0] == "err" and any(e["loc"] == [alias] for e in u[1])
            return None if ok else Failure("missing-discriminator-not-reported", witness=d, extra={"union": u})
        key = d[alias]
        if not isinstance(key, str) or key not in self.by_key:
            ok = u[0] == "err" and any(e["loc"] == [alias] for e in u[1])
            return None if ok else Failure("unknown-discriminator-not-reported", witness=d, extra={"union": u})
        m = self.by_key[key]
        alt_cls = dict(self.core.opt("mapping"))[key]
        alt_spec = next(a for a in self.core.a if a.opt("name") == alt_cls)
        has_field = any(f.ext == self.core.opt("alias") for f in alt_spec.a)
        d2 = d if has_field else {k: v for k, v in d.items() if k != alias}
        exp = self.out(m, d2)
        if exp[0] != u[0]:
            return Failure("discriminated-differs-from-alternative", witness=d, extra={"union": u, "alternative": exp, "key": key})
        if u[0] == "ok":
            if not same(u[1], exp[1]):
                return Failure("discriminated-differs-from-alternative", witness=d, extra={"union": u, "alternative": exp, "key": key})
        elif sorted((repr(e["loc"]), e["err"]) for e in u[1]) != sorted((repr(e["loc"]), e["err"]) for e in exp[1]):
            return Failure("discriminated-errors-differ", witness=d, extra={"union": u[1], "alternative": exp[1], "key": key})
        return None

    def tagged(self, d, u):
        if not isinstance(d, dict):
            return None if u[0] == "err" else Failure("tagged-accepts-non-object", witness=d)
        tags = [self.opts.aliaser(f.name) for f in self.core.a]
        present = [t for t in tags if t in d]
        extra = [k for k in d if k not in tags]
        if len(present) != 1 or extra:
            return None if u[0] == "err" else Failure("tagged-union-accepts-not-exactly-one-tag", witness=d, extra={"union": u})
        return None


class Ser:
    def __init__(self, job):
        from apischema import ValidationError, deserialization_method, serialization_method

        self.job = job
        self.prog = program_of(job)
        ns = self.prog.module.__dict__
        self.core, self.wrap = unwrap(self.prog.spec)
        from vf.harness.common import get_aliaser

        al = get_aliaser(job.get("opts", {}).get("aliaser"))
        akw = {"aliaser": al} if al else {}
        self.al = al or (lambda x: x)
        self.S = serialization_method(self.prog.tp, **akw)
        self.D = deserialization_method(self.prog.tp, **akw)
        self.VE = ValidationError
        if self.wrap == "ann":
            alts = flat_alts(self.core.a[0], self.core.o)
            self.core, self.wrap = self.core.a[0], None
        elif self.core.k in ("opt", "union"):
            alts = flat_alts(self.core)
        elif self.core.k == "disc":
            alts = list(self.core.a)
        else:
            alts = []
        k = self.core.k
        self.alts = alts
        self.alt_ser = [serialization_method(type(None) if a.k == "none" else eval(tyexpr(a), ns), **akw) for a in alts]
        self.bounds = bounds_of(job)
        self.ref = RefSer(self.prog)
        self.functions = sorted(set(method_classes(self_of(self.S)) + [f for m in self.alt_ser for f in method_classes(self_of(m))]))
        self.expect_tags = ["compared"]
        self.assumptions = []
        self.relax = ()

    def body(self, ctx: Ctx):
        if self.wrap is not None or not self.alts:
            v = Val(ctx, self.prog, self.bounds, respect_constraints=True).val(self.prog.spec)
            ctx.witness = v
            ctx.run_phase()
            out = self.S(v)
            ctx.notes["tag:compared"] = True
            try:
                back = self.D(out)
            except self.VE as e:
                return Failure("serialized-union-value-rejected", witness=v, extra={"out": out, "errors": e.errors})
            return None if same(back, v) else Failure("union-value-not-restored", witness=v, extra={"out": out, "back": back})
        v = Val(ctx, self.prog, self.bounds, respect_constraints=True).val(self.prog.spec)
        ctx.witness = v
        ctx.run_phase()
        try:
            out = self.S(v)
        except Exception as e:
            return Failure("union-serialization-raises", type(e).__name__, witness=v, extra={"exc": type(e).__name__})
        idx = next((i for i, a in enumerate(self.alts) if self.ref.matches(a, v)), None)
        if self.core.k != "disc" and idx is not None:
            # alternatives sharing their runtime class (two TypedDicts, two lists): the first
            # one, in order, whose own method serializes the value (documented fall-through)
            for i, a in enumerate(self.alts):
                if self.ref.matches(a, v):
                    try:
                        self.alt_ser[i](v)
                    except Exception:
                        continue
                    idx = i
                    break
        if self.core.k == "disc" and isinstance(v, dict):
            # TypedDict alternatives are told apart by their discriminator field
            alias = self.core.opt("alias")  # key of the TypedDict value (field name)
            by_key = dict(self.core.opt("mapping"))
            idx = next((i for i, a in enumerate(self.alts) if a.opt("name") == by_key.get(v.get(alias))), None)
        if idx is None:
            raise Assume("no alternative class matches")
        exp = self.alt_ser[idx](v)
        ctx.notes["tag:compared"] = True
        if self.core.k == "disc":
            alias = self.al(self.core.opt("alias"))
            cls = self.alts[idx].opt("name")
            keys = [k for k, c in self.core.opt("mapping") if c == cls]
            if not isinstance(out, dict) or alias not in out:
                return Failure("discriminator-key-not-emitted", witness=v, extra={"out": out})
            rest = {k: x for k, x in out.items() if k != alias} if alias not in exp else out
            if out[alias] not in keys or not same(rest, exp):
                return Failure("discriminated-serialization-differs", witness=v, extra={"out": out, "alternative": exp, "keys": keys})
            try:
                back = self.D(out)
            except self.VE as e:
                return Failure("serialized-union-value-rejected", witness=v, extra={"out": out, "errors": e.errors})
            return None if same(back, v) else Failure("union-value-not-restored", witness=v, extra={"out": out, "back": back})
        if not same(out, exp):
            return Failure("serialization-differs-from-first-matching-class", witness=v, extra={"out": out, "alternative": exp, "index": idx})
        return None


def make(job):
    return Ser(job) if job["variant"] == "ser" else Deser(job)
