"""Program pools (DESIGN.md 3.1): generated from the spec language, deterministic.

get(pool, pid) -> (spec, extra_src); ids(pool, tier) -> ordered list of pids.
The pool is the stated bound on the `programs` quantifier; it is *not* the deciding step.
"""
from __future__ import annotations

import functools
from typing import Dict, List, Tuple

from vf.specs import (
    subprim,
    P,
    disc,
    ANY,
    BOOL,
    FLOAT,
    INT,
    NONE,
    STR,
    F,
    Sp,
    ann,
    enum,
    fset,
    lit,
    lst,
    mp,
    newtype,
    obj,
    opt,
    ref,
    seq,
    st,
    tup,
    undef,
    union,
    vtuple,
)

V = lambda e: ("v", e)  # noqa: E731
Fy = lambda e: ("f", e)  # noqa: E731

# ------------------------------------------------------------------ leaves and wrappers
LEAVES: Dict[str, Sp] = {
    "int": INT,
    "float": FLOAT,
    "str": STR,
    "bool": BOOL,
    "none": NONE,
    "any": ANY,
    "lit_i": lit(1, 2),
    "lit_s": lit("a", "b"),
    "lit_mix": lit(1, "a"),
    "lit_b": lit(True, "t"),
    "enum": enum("E", 1, "x"),
    "enum_mix_s": enum("Ems", "u", "v", mixin="str"),
    "enum_mix_i": enum("Emi", 1, 2, mixin="int"),
    "enum_s": enum("Es", "u", "v"),
    "int_rng": ann(INT, min=0, max=10),
    "int_exc": ann(INT, exc_min=0, mult_of=3),
    "flt_rng": ann(FLOAT, min=0, exc_max=3),
    "str_len": ann(STR, min_len=1, max_len=2),
    "str_pat": ann(STR, pattern="^a"),
    "nt": newtype("Nt", INT, min=3),
    "nt_s": newtype("Ns", STR),
    "sub_i": subprim("MyInt", INT),
    "sub_s": subprim("MyStr", STR),
}
HASHABLE = {"int", "float", "str", "bool", "lit_i", "lit_s", "enum", "enum_mix_s", "enum_mix_i", "int_rng", "str_len", "nt"}


def wrappers(name: str, x: Sp) -> Dict[str, Sp]:
    out = {
        f"opt({name})": opt(x),
        f"list({name})": lst(x),
        f"seq({name})": seq(x),
        f"vtuple({name})": vtuple(x),
        f"map({name})": mp(x),
        f"tuple({name},str)": tup(x, STR),
        f"tuple1({name})": tup(x),
        f"union({name},none)": union(x, NONE),
        f"list_c({name})": ann(lst(x), min_items=1, max_items=2),
        f"map_c({name})": ann(mp(x), min_props=1, max_props=1),
    }
    if name in HASHABLE:
        out[f"set({name})"] = st(x)
        out[f"fset({name})"] = fset(x)
        out[f"list_u({name})"] = ann(lst(x), unique=True)
    return out


UNIONS: Dict[str, Sp] = {
    "u(int,str)": union(INT, STR),
    "u(float,str)": union(FLOAT, STR),
    "u(int,float)": union(INT, FLOAT),
    "u(float,int)": union(FLOAT, INT),
    "u(bool,int)": union(BOOL, INT),
    "u(int,bool,none)": union(INT, BOOL, NONE),
    "u(str,lit_s)": union(STR, lit("a", "b")),
    "u(lit_i,str)": union(lit(1, 2), STR),
    "u(list(int),tuple(int,int))": union(lst(INT), tup(INT, INT)),
    "u(tuple(int,str),list(str))": union(tup(INT, STR), lst(STR)),
    "u(list(int),map(int))": union(lst(INT), mp(INT)),
    "u(int_rng,str_len)": union(ann(INT, min=0, max=10), ann(STR, min_len=1)),
    "u(enum,int)": union(enum("E", 1, "x"), INT),
    "u(opt(int),str)": union(opt(INT), STR),
    "u(u(int,str),none)": union(union(INT, STR), NONE),
    "ann(u(int,str))": ann(union(INT, STR), min=0, min_len=1),
    "opt(ann(u(int,str)))": opt(ann(union(INT, STR), max=5, max_len=1)),
    "list_u(any)": ann(lst(ANY), unique=True),
    "list_u(u(int,bool))": ann(lst(union(INT, BOOL)), unique=True),
}

# ------------------------------------------------------------------------------ objects
A = obj(
    "A",
    F("a", INT),
    F("b", opt(STR), default=V("None")),
    F("c", lst(ann(INT, min=0, max=10)), default=Fy("list"), alias="cc"),
)
S2 = obj("S2", F("x", INT), F("y", STR))  # raw dataclass -> SimpleObjectMethod
S3 = obj("S3", F("x", INT), F("y", opt(BOOL), default=V("None")))
FL = obj("FL", F("x", FLOAT), F("y", BOOL, default=V("False")))
NT = obj("NTu", F("a", INT), F("b", STR, default=V("'d'")), kind="namedtuple")
TD = obj("TD", F("a", INT), F("b", STR), kind="typeddict")
TD2 = obj("TD2", F("a", INT), F("b", lst(INT)), kind="typeddict", total=False)
INNER = obj("Inner", F("u", INT), F("v", STR, default=V("'v'")))
FLAT = obj("Outer", F("inner", INNER, flatten=True), F("w", INT, default=V("0")))
INNER2 = obj("Inner2", F("p", INT, alias="P"), F("q", opt(INT), default=V("None")))
FLAT2 = obj(
    "Outer2",
    F("w", STR),
    F("i1", INNER, flatten=True),
    F("i2", INNER2, flatten=True),
)
MID = obj("Mid", F("inner", INNER, flatten=True), F("m", INT, default=V("0")))
FLAT3 = obj("Outer3", F("mid", MID, flatten=True), F("w", INT, default=V("0")))
PROPS = obj(
    "Props",
    F("n", INT, default=V("0")),
    F("p", mp(INT), default=Fy("dict"), properties="^p"),
    F("rest", mp(STR), default=Fy("dict"), properties=True),
)
PROPS2 = obj("Props2", F("p", mp(ann(INT, min=0)), default=Fy("dict"), properties="^a"))
ADDL = obj("Addl", F("k", STR), F("rest", mp(opt(INT)), default=Fy("dict"), properties=True))
REQ = obj(
    "Req",
    F("a", INT, default=V("1"), required_md=True),
    F("s", INT, default=V("7"), skip=("deserialization",)),
    F("ro", INT, default=V("5"), init=False),
)
INITV = obj(
    "InitV",
    F("a", INT),
    F("iv", INT, default=V("2"), initvar=True),
    F("total", INT, default=V("0"), init=False),
    body="def __post_init__(self, iv):\n    self.total = self.a + iv",
)
UNDEF = obj(
    "Undef",
    F("a", INT),
    F("u", undef(INT), default=V("Undefined")),
    F("n", opt(INT), default=V("None"), none_as_undefined=True),
)
FBD = obj(
    "Fbd",
    F("c", INT),
    F("a", INT, default=V("0"), fall_back=True),
    F("b", ann(STR, min_len=1), default=V("'d'"), fall_back=True),
)
DEPREQ = obj(
    "DepReq",
    F("a", INT, default=V("0")),
    F("b", INT, default=V("0")),
    F("c", STR, default=V("''"), alias="C"),
    body="_dr = dependent_required({'a': ['b'], 'c': ['a']})",
    dependent_required=(("a", ("b",)), ("c", ("a",))),
)
NODE = obj("Node", F("v", INT), F("next", opt(ref("Node")), default=V("None")))
TREE = obj("Tree", F("v", INT), F("kids", lst(ref("Tree")), default=Fy("list")))
MB = obj("MB", F("a", opt(ref("MA")), default=V("None")), F("n", INT, default=V("0")))
MA = obj("MA", F("b", opt(MB), default=V("None")))
NESTED = obj("Nest", F("s", S2), F("items", lst(S3), default=Fy("list")))
FSCH = obj(
    "FSch",
    F("i", INT, schema=(("max", 5), ("min", 1))),
    F("s", opt(STR), default=V("None"), schema=(("max_len", 1),)),
    F("l", lst(INT), default=Fy("list"), schema=(("max_items", 1),)),
)
OBJC = ann(S2, min_props=2)
MAPOBJ = mp(tup(INT, STR))
TDNEST = obj("TDN", F("t", TD2), F("m", mp(tup(INT, STR)), default=Fy("dict")))
FLATMAP = obj(
    "FlatMap",
    F("inner", obj("InM", F("m", mp(tup(INT, STR)), default=Fy("dict"))), flatten=True),
    F("z", INT, default=V("0")),
)
ALIASED = obj(
    "Al",
    F("snake_case", INT, default=V("0")),
    F("class_", STR, alias="class", default=V("''")),
    F("d", INT, alias="$d", default=V("0")),
)
GEN = obj(
    "G",
    F("x", INT, texpr="T"),
    F("xs", lst(INT), texpr="List[T]", default=Fy("list")),
    bases="Generic[T]",
    texpr="G[int]",
)
GEN_SRC = "T = TypeVar('T')"
GENTD = obj(
    "GT",
    F("x", INT, texpr="T"),
    F("y", STR),
    kind="typeddict",
    raw_src="class GT(TypedDict, Generic[T]):\n    x: T\n    y: str\n",
    texpr="GT[int]",
)
GENNT = obj(
    "GN",
    F("x", INT, texpr="T"),
    F("y", STR, default=V("'d'")),
    kind="namedtuple",
    raw_src="class GN(NamedTuple, Generic[T]):\n    x: T\n    y: str = 'd'\n",
    texpr="GN[int]",
)
# generic inheritance whose parameter order differs from the order of appearance in the bases
GEN2_SRC = """
T = TypeVar('T')
U = TypeVar('U')

@dataclass
class GA(Generic[T]):
    a: T

@dataclass
class GB(Generic[U]):
    b: U
"""
GEN2 = obj(
    "GC",
    F("b", INT, texpr="U"),
    F("a", STR, texpr="T"),
    raw_src="@dataclass\nclass GC(GA[T], GB[U], Generic[U, T]):\n    pass\n",
    texpr="GC[int, str]",
)
KWONLY = obj("Kw", F("a", INT, default=V("0")), F("b", STR), dargs="kw_only=True")
FROZEN = obj("Fz", F("a", INT), F("b", lst(STR), default=Fy("list")), dargs="frozen=True")
SLOTS = obj("Sl", F("a", INT), F("b", opt(INT), default=V("None")), dargs="slots=True")

INH_SRC = """
@dataclass
class PBase:
    low: int
    high: int = 0

    def __post_init__(self):
        if self.low > self.high:
            self.low, self.high = self.high, self.low
"""
INH = obj("Inh", F("low", INT), F("high", INT, default=V("0")), F("z", INT, default=V("0")), bases="PBase")
NZ = newtype("Nz", INT, min=0)
REQOPT = obj("ReqOpt", F("r", opt(INT)), F("t", opt(STR)), F("s", INT, default=V("0")))
NTF = obj(
    "NtF",
    F("x", NZ, schema=(("max", 5),)),
    F("z", NZ, default=V("0"), schema=(("min", -5),)),
    F("w", ann(NZ, min=-3), default=V("0")),
    F("y", ann(NZ, max=9), default=V("0")),
    F("s", newtype("Nls", STR, max_len=0), default=V("''"), schema=(("min_len", 0),)),
)
# inherited discriminators: parent a plain class (the documented form) or a dataclass with a
# field; the subclasses also used on their own and as field types
INH_PLAIN_SRC = '@discriminator("type")\nclass DPlain:\n    pass\n'
PA = obj("PA", F("x", INT), bases="DPlain")
PB = obj("PB", F("y", STR, default=V("''")), bases="DPlain")
INH_FIELDS_SRC = '@discriminator("type")\n@dataclass\nclass FBase:\n    n: int = 0\n'
FA = obj("FA", F("n", INT, default=V("0")), F("x", INT, default=V("0")), bases="FBase")
FB = obj("FB", F("n", INT, default=V("0")), F("y", STR, default=V("''")), bases="FBase")
# inherited discriminator whose dataclass base carries dependent_required (a keyword every
# dialect spells differently, on the base's own definition)
INH_DR_SRC = '@discriminator("type")\n@dataclass\nclass QBase:\n    a: int = 0\n    b: int = 0\n    _dr = dependent_required({"a": ["b"]})\n'
QA = obj("QA", F("a", INT, default=V("0")), F("b", INT, default=V("0")), F("x", INT, default=V("0")), bases="QBase", dependent_required=(("a", ("b",)),))
QB = obj("QB", F("a", INT, default=V("0")), F("b", INT, default=V("0")), F("y", STR, default=V("''")), bases="QBase", dependent_required=(("a", ("b",)),))
# three-level hierarchy under an inherited discriminator: KK is a subclass of the alternative KA
# (alternatives in the library's order: most specific first, so KA is defined by the extra source)
INH_DEEP_SRC = '@discriminator("type")\n@dataclass\nclass KBase:\n    n: int = 0\n@dataclass\nclass KA(KBase):\n    x: int = 0\n'
KA = obj("KA", F("n", INT, default=V("0")), F("x", INT, default=V("0")), bases="KBase", raw_src="pass")
KK = obj("KK", F("n", INT, default=V("0")), F("x", INT, default=V("0")), F("age", INT, default=V("0")), bases="KA")
OBJECTS: Dict[str, Tuple[Sp, str]] = {
    "NtField": (NTF, ""),
    "ReqOpt": (REQOPT, ""),
    # constraints of several JSON types on an Any position: each applies to its own type only
    "ann(any,num+str)": (ann(ANY, min=2, max_len=1), ""),
    "AnyC": (obj("AnyC", F("v", ANY, schema=(("max", 0), ("min_items", 1))), F("w", INT, default=V("0"))), ""),
    "NtOnce": (obj("NtOnce", F("z", newtype("Nz1", INT, min=0), default=V("0"), schema=(("min", -5),))), ""),
    "ann(nt0,looser)": (ann(newtype("Nz2", INT, min=0), min=-5), ""),
    "set(int,max1)": (ann(st(INT), max_items=1), ""),
    "set(int,min2)": (ann(st(INT), min_items=2), ""),
    "ann(str0,looser)": (ann(newtype("Ns0", STR, max_len=0), max_len=2), ""),
    # the other way round: the outer level is exactly 0 (falsy), the inner one looser
    "ann(nt-5,zero)": (ann(newtype("Nz3", INT, min=-5), min=0), ""),
    "ann(str3,zero)": (ann(newtype("Ns3", STR, max_len=3), max_len=0), ""),
    "NtZero": (obj("NtZero", F("z", newtype("Nz4", INT, max=5), default=V("0"), schema=(("max", 0),))), ""),
    "Inherit": (INH, INH_SRC),
    "DiscSub": (PA, INH_PLAIN_SRC),
    # a subclass used on its own whose field is the (recursive) discriminated parent
    "DiscSubRec": (
        obj(
            "RBranch2",
            F("sub", opt(disc("type", (("RLeaf2", "RLeaf2"), ("RBranch2", "RBranch2")),
                              obj("RLeaf2", F("v", INT, default=V("0")), bases="RBase2"), ref("RBranch2"), inherited="RBase2")), default=V("None")),
            F("k", INT, default=V("0")),
            bases="RBase2",
        ),
        '@discriminator("type")\n@dataclass\nclass RBase2:\n    pass\n',
    ),
    "DiscSubHolder": (obj("DHold", F("c", PA), F("k", INT, default=V("0"))), INH_PLAIN_SRC),
    "DiscSub(fields)": (FA, INH_FIELDS_SRC),
    "ann(nt0)": (ann(NZ, max=5), ""),
    "list0": (ann(lst(INT), max_items=0), ""),
    # mappings whose keys are constrained / converted
    "map_pat(int)": (mp(INT, k=ann(STR, pattern="^a")), ""),
    "map_lit(int)": (mp(INT, k=lit("a", "b")), ""),
    "map_enum(str_len)": (mp(ann(STR, max_len=1), k=enum("Ek", "a", "b")), ""),
    "map_nt(opt(int))": (mp(opt(INT), k=newtype("Kn", STR, pattern="^a")), ""),
    "A": (A, ""),
    "S2": (S2, ""),
    "S3": (S3, ""),
    "FL": (FL, ""),
    "NamedTuple": (NT, ""),
    "TD": (TD, ""),
    "TD2": (TD2, ""),
    "Flat": (FLAT, ""),
    "Flat2": (FLAT2, ""),
    "Flat3": (FLAT3, ""),
    "Props": (PROPS, ""),
    "Props2": (PROPS2, ""),
    "Addl": (ADDL, ""),
    "Req": (REQ, ""),
    "InitV": (INITV, ""),
    "Undef": (UNDEF, ""),
    "Fbd": (FBD, ""),
    "DepReq": (DEPREQ, ""),
    "Node": (NODE, ""),
    "Tree": (TREE, ""),
    "Mutual": (MA, ""),
    "Nested": (NESTED, ""),
    "FSch": (FSCH, ""),
    "ObjC": (OBJC, ""),
    "map(tuple)": (MAPOBJ, ""),
    "TDNest": (TDNEST, ""),
    "TDSkip": (obj("TDk", F("a", INT), F("d", INT, skip=("deserialization",)), kind="typeddict", total=False), ""),
    "NTSkip": (obj("NTk", F("a", INT), F("b", INT, default=V("3"), skip=("deserialization",)), kind="namedtuple"), ""),
    # `required` given through Annotated on an otherwise optional TypedDict key / NamedTuple field
    "TDReq": (obj("TDq", F("a", INT, required_md=True), F("b", STR), kind="typeddict", total=False), ""),
    "NTReq": (obj("NTq", F("a", INT), F("b", INT, default=V("3"), required_md=True), kind="namedtuple"), ""),
    # generic NamedTuple (Python >= 3.11)
    "GenericNT": (GENNT, GEN_SRC),
    "GenericTD": (GENTD, GEN_SRC),
    "FlatMap": (FLATMAP, ""),
    "Aliased": (ALIASED, ""),
    "Generic": (GEN, GEN_SRC),
    "GenericSwap": (GEN2, GEN2_SRC),
    "KwOnly": (KWONLY, ""),
    "Frozen": (FROZEN, ""),
    "Slots": (SLOTS, ""),
    "list(S2)": (lst(S2), ""),
    "opt(A)": (opt(A), ""),
    "map(S3)": (mp(S3), ""),
    # overlapping object alternatives: the first accepting one decides the class of the result
    "u(OvA,OvB)": (union(obj("OvA", F("x", INT, default=V("0"))), obj("OvB", F("x", INT, default=V("0")), F("y", INT, default=V("0")))), ""),
    "u(OvB,OvA)": (union(obj("OvB", F("x", INT, default=V("0")), F("y", INT, default=V("0"))), obj("OvA", F("x", INT, default=V("0")))), ""),
    "u(S2,FL)": (union(S2, FL), ""),
    "u(S2,int)": (union(S2, INT), ""),
    "u(TD,list(int))": (union(TD, lst(INT)), ""),
    "tuple(S2,int)": (tup(S2, INT), ""),
}

# ------------------------------------------------------------------ serialization pool
SER_SRC = """
def is_neg(x):
    return x is not None and x < 0
"""
SM = obj(
    "Sm",
    F("a", INT),
    F("t", opt(STR), default=V("None")),
    body="@serialized\ndef double(self) -> int:\n    return self.a * 2\n"
    "@serialized('negAlias')\n@property\ndef neg(self) -> Optional[int]:\n    return None if self.a == 0 else -self.a\n"
    "@serialized\ndef maybe(self) -> Union[int, UndefinedType]:\n    return Undefined if self.a > 5 else self.a",
    smethods=(
        ("double", "double", INT, "method"),
        ("neg", "negAlias", opt(INT), "property"),
        ("maybe", "maybe", undef(INT), "method"),
    ),
)
SK = obj(
    "Sk",
    F("a", INT, default=V("0"), skip=("serialization_default",)),
    F("b", opt(INT), default=V("None"), skip=("serialization_if:is_neg",)),
    F("c", opt(STR), default=V("None"), none_as_undefined=True),
    F("d", undef(INT), default=V("Undefined")),
    F("e", INT, default=V("5"), skip=("serialization",)),
)
SKD = obj(
    "Skd",
    F("n", opt(INT), default=V("None"), skip=("serialization_default",)),
    F("l", lst(INT), default=Fy("list"), skip=("serialization_default",)),
    F("s", STR, default=V("'d'"), alias="S"),
    F("u", opt(undef(INT)) if False else undef(opt(INT)), default=V("Undefined")),
)
FS = obj(
    "Fs",
    F("a", INT),
    F("b", opt(INT), default=V("None")),
    F("c", STR, default=V("'c'"), default_as_set=True),
    deco=("with_fields_set",),
    fields_set=True,
)
TDA = obj(
    "TDA",
    F("a", INT, alias="A1"),
    F("n", opt(INT)),
    F("u", opt(STR), none_as_undefined=True),
    kind="typeddict",
)
TDS = obj(
    "TDS",
    F("a", INT),
    F("b", INT, skip=("serialization",)),
    F("c", opt(INT), skip=("serialization_if:is_neg",)),
    kind="typeddict",
)
NTS = obj(
    "NTS",
    F("a", INT),
    F("b", INT, default=V("3"), skip=("serialization", "deserialization")),
    kind="namedtuple",
)
SMALL = obj("Small", F("a", INT))
BIG = obj("Big", F("a", INT), F("b", STR, default=V("'x'")), bases="Small")
SUBM_SRC = """
@dataclass
class Small:
    a: int

@dataclass
class Big(Small):
    b: str = 'x'

@dataclass
class MBase:
    n: int

    @serialized
    def info(self) -> Small:
        return Small(self.n)
"""
SUBM = obj(
    "MSub",
    F("n", INT),
    bases="MBase",
    body="@serialized\ndef info(self) -> Big:\n    return Big(self.n, 'y')",
    smethods=(("info", "info", BIG, "method"),),
)
RO = obj(
    "Ro",
    F("a", INT),
    F("ro", tup(INT, STR), default=V("(0, '')"), skip=("deserialization",)),
    body="@serialized\ndef pair(self) -> Tuple[int, str]:\n    return (self.a, 's')\n"
    "@serialized\ndef one(self) -> Literal['x']:\n    return 'x'\n"
    "@serialized\ndef ol(self) -> Optional[List[int]]:\n    return None if self.a < 0 else [self.a]",
    smethods=(("pair", "pair", tup(INT, STR), "method"), ("one", "one", lit("x"), "method"), ("ol", "ol", opt(lst(INT)), "method")),
)
SER_OBJECTS: Dict[str, Tuple[Sp, str]] = {
    "Ro": (RO, ""),
    "TDA": (TDA, ""),
    "SubMethod": (SUBM, SUBM_SRC),
    "TDS": (TDS, SER_SRC),
    "NTS": (NTS, ""),
    "enum_struct": (enum("Est", 0, (1, 2), "s"), ""),
    "list(enum_struct)": (lst(enum("Est", 0, (1, 2), "s")), ""),
    "Sm": (SM, ""),
    "Sk": (SK, SER_SRC),
    "Skd": (SKD, ""),
    "Fs": (FS, ""),
    "list(Sm)": (lst(SM), ""),
    "opt(Sk)": (opt(SK), SER_SRC),
    "u(S2,FL,none)": (union(S2, FL, NONE), ""),
    "u(int,S2)": (union(INT, S2), ""),
    "u(list(int),tuple(int,str))": (union(lst(INT), tup(INT, STR)), ""),
    "map(enum)": (mp(enum("E", 1, "x")), ""),
    "enum_mixed": (enum("Em", 0, "z", 1.5), ""),
    "set(int)": (st(INT), ""),
}

# ------------------------------------------------------------------------- union pool
UNSUP = P("unsup")
DA = obj("DA", F("x", INT))
DB = obj("DB", F("y", STR, default=V("'d'")))
DA2 = obj("DA2", F("x", INT))
DB2 = obj("DB2", F("x", INT), F("z", opt(INT), default=V("None")))
LA = obj("LA", F("kind", lit("la"), default=V("'la'")), F("x", INT, default=V("0")))
LB = obj("LB", F("kind", lit("lb", "lb2"), default=V("'lb'")), F("y", STR, default=V("''")))
# tag fields whose Literal type carries Annotated metadata
LAA = obj("LAA", F("kind", lit("la"), default=V("'la'"), texpr='Annotated[Literal["la"], schema(description="tag")]'), F("x", INT, default=V("0")))
LBA = obj("LBA", F("kind", lit("lb"), default=V("'lb'"), texpr='Annotated[Literal["lb"], schema(title="t")]'), F("y", STR, default=V("''")))
INH_DISC_SRC = """
@discriminator("type")
@dataclass
class DBase:
    pass
"""
IA = obj("IA", F("x", INT), bases="DBase")
IB = obj("IB", F("y", STR, default=V("''")), bases="DBase")
TU = ann(
    obj(
        "TU",
        F("a", undef(INT), default=V("Undefined")),
        F("b", undef(STR), default=V("Undefined")),
        raw_src="class TU(TaggedUnion):\n    a: Tagged[int]\n    b: Tagged[str]\n",
        tagged=True,
    ),
    min_props=1,
    max_props=1,
)
TU_SRC = "from apischema.tagged_unions import TaggedUnion, Tagged"
DF = obj("DF", F("inner", INNER, flatten=True), F("w", INT, default=V("0")))
DP = obj("DP", F("k", STR, default=V("''")), F("p", mp(INT), default=Fy("dict"), properties="^p"))
TA = obj("TA", F("kind", lit("ta")), F("x", INT), kind="typeddict")
TB = obj("TB", F("kind", lit("tb")), F("y", STR), kind="typeddict")
CIRC = obj("Circle", F("kind", lit("circle"), alias="type", default=V("'circle'")), F("r", INT, default=V("0")))
SQUA = obj("Square", F("kind", lit("square"), alias="type", default=V("'square'")), F("s", INT, default=V("0")))
UNION_EXTRA: Dict[str, Tuple[Sp, str]] = {
    "u(int,none,lit_s)": (union(INT, NONE, lit("a", "b")), ""),
    "u(none,enum,int)": (union(NONE, enum("E", 1, "x"), INT), ""),
    "u(str,lit_i,none)": (union(STR, lit(1, 2), NONE), ""),
    "disc(aliased-literal)": (disc("type", (("circle", "Circle"), ("square", "Square")), CIRC, SQUA), ""),
    "disc(typeddict)": (disc("kind", (("ta", "TA"), ("tb", "TB")), TA, TB), ""),
    "disc(flatten)": (disc("type", (("DF", "DF"), ("DA", "DA")), DF, DA), ""),
    "disc(props)": (disc("type", (("DP", "DP"), ("DA", "DA")), DP, DA), ""),
    "disc(addl)": (disc("type", (("DQ", "DQ"), ("DA", "DA")), obj("DQ", F("k", STR, default=V("''")), F("rest", mp(INT), default=Fy("dict"), properties=True)), DA), ""),
    "u(OvA,OvB)": (union(obj("OvA", F("x", INT, default=V("0"))), obj("OvB", F("x", INT, default=V("0")), F("y", INT, default=V("0")))), ""),
    "u(OvB,OvA)": (union(obj("OvB", F("x", INT, default=V("0")), F("y", INT, default=V("0"))), obj("OvA", F("x", INT, default=V("0")))), ""),
    "u(S2,FL)": (union(S2, FL), ""),
    "u(FL,S2)": (union(FL, S2), ""),
    "u(S2,S3)": (union(S2, S3), ""),
    "u(S3,S2)": (union(S3, S2), ""),
    "u(S2,int)": (union(S2, INT), ""),
    "u(S2,int,none)": (union(S2, INT, NONE), ""),
    "u(TD,list(int))": (union(TD, lst(INT)), ""),
    "u(map(int),S2)": (union(mp(INT), S2), ""),
    "u(list(int),list(str))": (union(lst(INT), lst(STR)), ""),
    # alternatives sharing their runtime class, told apart by their content only
    "u(TDx,TDy)": (union(obj("TDx", F("a", INT), kind="typeddict"), obj("TDy", F("b", STR), kind="typeddict")), ""),
    "u(list(LA),list(LB))": (union(lst(obj("LA", F("name", STR))), lst(obj("LB", F("age", INT)))), ""),
    "u(tuple(int,int),list(int))": (union(tup(INT, INT), lst(INT)), ""),
    "u(str,enum_s)": (union(STR, enum("Es", "u", "v")), ""),
    "u(enum_s,str)": (union(enum("Es", "u", "v"), STR), ""),
    "u(int,unsup)": (union(INT, UNSUP), ""),
    "u(unsup,str,none)": (union(UNSUP, STR, NONE), ""),
    "u(int,u(str,list(int)))": (union(INT, union(STR, lst(INT))), ""),
    "u(float,bool)": (union(FLOAT, BOOL), ""),
    "u(int_rng,int)": (union(ann(INT, min=0, max=10), INT), ""),
    "u(opt(S2),FL)": (union(opt(S2), FL), ""),
    "disc(default)": (disc("type", (("DA", "DA"), ("DB", "DB")), DA, DB), ""),
    "disc(explicit)": (disc("kind", (("a", "DA"), ("b", "DB")), DA, DB, explicit="{'a': DA, 'b': DB}"), ""),
    "disc(partial)": (disc("kind", (("a", "DA"), ("DB", "DB")), DA, DB, explicit="{'a': DA}"), ""),
    "disc(same-shape)": (disc("type", (("DA2", "DA2"), ("DB2", "DB2")), DA2, DB2), ""),
    "disc(annotated-literal)": (disc("kind", (("la", "LAA"), ("lb", "LBA")), LAA, LBA), ""),
    "disc(literal)": (disc("kind", (("la", "LA"), ("lb", "LB"), ("lb2", "LB")), LA, LB), ""),
    "disc(inherited)": (disc("type", (("IA", "IA"), ("IB", "IB")), IA, IB, inherited="DBase"), INH_DISC_SRC),
    "disc(inherited,plain)": (disc("type", (("PA", "PA"), ("PB", "PB")), PA, PB, inherited="DPlain"), INH_PLAIN_SRC),
    "disc(inherited,fields)": (disc("type", (("FA", "FA"), ("FB", "FB")), FA, FB, inherited="FBase"), INH_FIELDS_SRC),
    "disc(inherited,depreq)": (disc("type", (("QA", "QA"), ("QB", "QB")), QA, QB, inherited="QBase"), INH_DR_SRC),
    "disc(inherited,deep)": (disc("type", (("KK", "KK"), ("KA", "KA")), KK, KA, inherited="KBase"), INH_DEEP_SRC),
    "disc(inherited,recursive)": (
        disc("type", (("RLeaf", "RLeaf"), ("RBranch", "RBranch")),
             obj("RLeaf", F("v", INT, default=V("0")), bases="RBase"),
             obj("RBranch", F("sub", opt(ref("RBase")), default=V("None")), F("k", INT, default=V("0")), bases="RBase"),
             inherited="RBase"),
        '@discriminator("type")\n@dataclass\nclass RBase:\n    pass\n',
    ),
    "list(disc)": (lst(disc("type", (("DA", "DA"), ("DB", "DB")), DA, DB)), ""),
    "tagged": (TU, TU_SRC),
}

QUICK_WRAP = ["int", "float", "str_len", "lit_mix", "enum", "enum_mix_s", "nt", "any", "sub_i"]


@functools.lru_cache()
def _data_pool() -> Dict[str, Tuple[Sp, str, str]]:
    """pid -> (spec, extra_src, tier)"""
    out: Dict[str, Tuple[Sp, str, str]] = {}
    for n, s in LEAVES.items():
        out[n] = (s, "", "quick")
    for n, s in UNIONS.items():
        out[n] = (s, "", "quick")
    for n, s in LEAVES.items():
        for wn, w in wrappers(n, s).items():
            tier = "quick" if n in QUICK_WRAP else "thorough"
            out[wn] = (w, "", tier)
    # depth 2: wrappers of wrappers for a few leaves
    for n in ("int", "float", "str_len"):
        for wn, w in wrappers(n, LEAVES[n]).items():
            inner_ok = wn.startswith(("opt", "list(", "tuple(", "map("))
            if not inner_ok:
                continue
            for wn2, w2 in wrappers(wn, w).items():
                if wn2.startswith(("set", "fset", "list_u", "union(opt")):
                    continue
                tier = "quick" if (n == "float" and wn2.startswith(("list(", "map(", "opt(tuple"))) else "thorough"
                out[wn2] = (w2, "", tier)
    for n, (s, src) in OBJECTS.items():
        out[n] = (s, src, "quick")
    return out


@functools.lru_cache()
def _ser_pool():
    out = dict(_data_pool())
    for n, (s, src) in SER_OBJECTS.items():
        out[n] = (s, src, "quick")
    return out


@functools.lru_cache()
def _union_pool():
    out = {
        n: (sp, "", "quick")
        for n, sp in UNIONS.items()
        if sp.k in ("union", "opt") or (sp.k == "ann" and sp.a[0].k in ("union", "opt"))
    }
    for n, (sp, src) in UNION_EXTRA.items():
        out[n] = (sp, src, "quick")
    for n in ("opt(int)", "opt(float)", "opt(str_len)", "opt(list(int))", "opt(enum)", "union(any,none)", "opt(lit_mix)"):
        if n in _data_pool():
            out[n] = _data_pool()[n]
    return out


AL1 = obj(
    "Al1",
    F("first_name", INT),
    F("lastName", STR, default=V("''")),
    F("class_", INT, alias="class", default=V("0")),
    F("d", opt(INT), alias="$d", default=V("None")),
)
AL2 = obj(
    "Al2",
    F("some_id", INT),
    F("kept", STR, alias="kept_as_is", no_override=True, default=V("''")),
    F("other", INT, alias="oth_er", default=V("0")),
    class_aliaser="upper",
)
AL_IN = obj("AlIn", F("in_a", INT, default=V("0")), F("in_b", STR, alias="in_bee", default=V("''")), class_aliaser="cprefix")
AL3 = obj(
    "Al3",
    F("flat_in", AL_IN, flatten=True),
    F("nested_obj", opt(AL_IN), default=V("None")),
    F("own_field", INT, default=V("0")),
    class_aliaser="upper",
)
AL4 = obj(
    "Al4",
    F("dep_a", INT, default=V("0")),
    F("dep_b", INT, default=V("0"), alias="depB"),
    body="_dr = dependent_required({'dep_a': ['dep_b']})",
    dependent_required=(("dep_a", ("dep_b",)),),
    class_aliaser="cprefix",
)
AL5 = obj(
    "Al5",
    F("with_default", AL_IN, default=Fy("AlIn")),
    F("own_field", INT, default=V("0")),
)
ALIAS_OBJECTS = {"Al5": (AL5, ""), "Al1": (AL1, ""), "Al2": (AL2, ""), "Al3": (AL3, ""), "Al4": (AL4, ""), "list(Al2)": (lst(AL2), ""), "map(Al1)": (mp(AL1), "")}


@functools.lru_cache()
def _alias_pool():
    return {n: (sp, src, "quick") for n, (sp, src) in ALIAS_OBJECTS.items()}


POOLS = {"data": _data_pool, "ser": _ser_pool, "union": _union_pool, "alias": _alias_pool}


def random_spec(seed: int, i: int, depth: int = 3) -> Sp:
    """a composite program drawn pseudo-randomly from the grammar (deterministic in seed, i)"""
    import random

    rnd = random.Random(seed * 1000003 + i)
    names = iter(f"R{i}_{n}" for n in range(100))

    def leaf():
        k = rnd.choice(sorted(LEAVES))
        s = LEAVES[k]
        return s, k in HASHABLE

    def gen(d):
        if d <= 0 or rnd.random() < 0.25:
            return leaf()
        w = rnd.choice(["opt", "list", "seq", "vtuple", "map", "tuple", "union", "set", "fset", "obj", "list_c", "td"])
        if w in ("set", "fset"):
            s, h = leaf()
            while not h:
                s, h = leaf()
            return (st(s) if w == "set" else fset(s)), w == "fset"
        if w == "opt":
            s, _ = gen(d - 1)
            return (s if s.k in ("opt", "none", "any") else opt(s)), False
        if w == "union":
            a, _ = leaf()
            b, _ = gen(d - 1)
            return (union(a, b) if a != b and b.k not in ("any",) else b), False
        if w == "tuple":
            return tup(gen(d - 1)[0], leaf()[0]), False
        if w == "map":
            return mp(gen(d - 1)[0]), False
        if w == "list_c":
            return ann(lst(gen(d - 1)[0]), min_items=rnd.choice([0, 1]), max_items=2), False
        if w in ("obj", "td"):
            n = rnd.randint(1, 3)
            fields = []
            for j in range(n):
                fs, _ = gen(d - 1)
                fields.append(F(f"f{j}", fs))
            if w == "td":
                return obj(next(names), *fields, kind="typeddict", total=rnd.random() < 0.6), False
            # defaulted optional field last keeps dataclass ordering legal
            fields.append(F("g", opt(INT), default=V("None"), alias=rnd.choice([None, "G"])))
            return obj(next(names), *fields), False
        s, _ = gen(d - 1)
        return {"list": lst, "seq": seq, "vtuple": vtuple}[w](s), False

    return gen(depth)[0]


def random_ids(seed: int, n: int) -> List[str]:
    return [f"rnd:{seed}:{i}" for i in range(n)]


def get(pool: str, pid: str) -> Tuple[Sp, str]:
    if pid.startswith("rnd:"):
        _, seed, i = pid.split(":")
        return _uniq_names(random_spec(int(seed), int(i))), ""
    s, src, _ = POOLS[pool]()[pid]
    return s, src


def _uniq_names(s: Sp) -> Sp:
    """leaves of LEAVES share named definitions (E, Nt, ...): identical, so no clash"""
    return s


def ids(pool: str, tier: str) -> List[str]:
    p = POOLS[pool]()
    return [k for k, (_, _, t) in p.items() if tier == "thorough" or t == "quick"]
