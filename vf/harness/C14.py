"""C14: coercion only widens acceptance, per the documented table (DESIGN.md 4/C14)."""
from __future__ import annotations

from typing import Optional

from vf import pools
from vf.engine import Assume, Ctx, Failure
from vf.harness.common import bounds_of, method_classes, program_of, ref_opts, self_of
from vf.harness.deser_e2e import has_obj
from vf.oracle.coerce import BOOL_WORDS
from vf.oracle.deser import jkind
from vf.specs import Sp, named, static_alias, walk
from vf.sym import Gen, same


def union_free(spec: Sp) -> bool:
    return not any(s.k in ("union", "opt", "disc", "any") for s in walk(spec))


def jobs(prop, tier, seed):
    out = []
    q = tier == "quick"
    for pid in pools.ids("data", tier):
        spec, _ = pools.get("data", pid)
        if any(s.k == "obj" and any(f.fall_back for f in s.a) for s in walk(spec)):
            continue  # a strict run that falls back on a default is not comparable
        variant = "normalise" if union_free(spec) else "monotone"
        b = dict(depth=2, width=2, strlen=2, budget=1 if q else 2, int_abs=99 if q else 999, float_pool=True, str_pool=True)
        out.append(dict(harness="C14", variant=variant, pool="data", pid=pid, opts={}, bounds=b, budget_s=30 if q else 150))
    # discriminated / tagged unions: what strict mode accepts, coercion accepts (monotone)
    for pid in pools.ids("union", tier):
        spec, _ = pools.get("union", pid)
        if pid in pools.ids("data", tier) or not any(s.k == "disc" or (s.k == "obj" and s.opt("tagged")) for s in walk(spec)):
            continue
        b = dict(depth=2, width=2, strlen=2, budget=1 if q else 2, int_abs=99 if q else 999, float_pool=True, str_pool=True)
        out.append(dict(harness="C14", variant="monotone", pool="union", pid=pid, opts={}, bounds=b, budget_s=30 if q else 150))
        # ... and on valid data alone (no deviation budget), deeper
        out.append(dict(harness="C14", variant="monotone", pool="union", pid=pid, opts={}, bounds=dict(b, budget=0, depth=3), budget_s=30 if q else 150))
    for pid in pools.ids("data", tier):
        spec, _ = pools.get("data", pid)
        if q and pools.POOLS["data"]()[pid][2] != "quick":
            continue
        b = dict(depth=2, width=2, strlen=2, budget=1 if q else 2)
        out.append(dict(harness="C14", variant="passthrough", pool="data", pid=pid, opts={}, bounds=b, budget_s=25 if q else 120))
    for cls in ("int", "float", "str", "bool", "NoneType"):
        out.append(dict(harness="C14", variant="custom", pid=f"custom({cls})", cls=cls, opts={}, bounds=dict(strlen=2, int_abs=99, float_pool=True, str_pool=True, budget=1, depth=1), budget_s=30))
    return out


class NotCoercible(Exception):
    pass


class Norm:
    """reference normaliser: applies exactly the documented conversions at primitive
    positions; everything else is left as is (and judged by the strict run)"""

    def __init__(self, prog, opts):
        self.prog = prog
        self.defs = named(prog.spec)
        self.opts = opts

    def prim(self, k: str, d):
        kd = jkind(d)
        if k == "int":
            if kd in ("str", "float"):
                try:
                    return int(d)
                except (ValueError, OverflowError):
                    return d
            return d
        if k == "float":
            if kd == "str":
                try:
                    return float(d)
                except ValueError:
                    return d
            return d
        if k == "str":
            if kd in ("int", "float"):
                return str(d)
            return d
        if k == "bool":
            if kd == "str":
                w = d.lower()
                for word, val in BOOL_WORDS.items():
                    if w == word:
                        return val
                return d
            if kd == "int":
                return bool(d)
            return d
        if k == "none":
            if kd == "str" and d == "":
                return None
            return d
        raise ValueError(k)

    def norm(self, s: Sp, d):
        k = s.k
        if k == "ref":
            return self.norm(self.defs[s.opt("name")], d)
        if k in ("ann", "newtype", "undef", "sub"):
            return self.norm(s.a[0], d)
        if k in ("int", "float", "str", "bool", "none"):
            return self.prim(k, d)
        if k in ("lit", "enum"):
            # documented: coerced to the class of a literal value, in turn
            kinds = []
            for v in s.a:
                kv = jkind(v)
                kv = "none" if kv == "null" else kv
                if kv not in kinds:
                    kinds.append(kv)
            for v in s.a:
                if type(v) is type(d) and v == d:
                    return d
            cands = [self.prim(kv, d) for kv in kinds]
            return ("__lit__", cands)
        if k in ("list", "seq", "set", "fset", "vtuple"):
            return [self.norm(s.a[0], x) for x in d] if isinstance(d, list) else d
        if k == "tuple":
            if isinstance(d, list) and len(d) == len(s.a):
                return [self.norm(a, x) for a, x in zip(s.a, d)]
            return d
        if k == "map":
            if isinstance(d, dict):
                return {key: self.norm(s.a[1], x) for key, x in d.items()}
            return d
        if k == "obj":
            if not isinstance(d, dict):
                return d
            out = dict(d)
            self.norm_obj(s, out)
            return out
        return d

    def norm_obj(self, s: Sp, out: dict, consumed=None):
        consumed = set() if consumed is None else consumed
        fields = sorted(s.a, key=lambda f: (f.properties is True, isinstance(f.properties, str)))
        for f in fields:
            if "deserialization" in f.skip or not (f.init or f.initvar):
                continue
            if f.flatten:
                sub = f.sp
                while sub.k in ("ref", "ann", "newtype"):
                    sub = self.defs[sub.opt("name")] if sub.k == "ref" else sub.a[0]
                self.norm_obj(sub, out, consumed)
            elif f.properties is not None:
                m = f.sp
                while m.k in ("ann", "newtype"):
                    m = m.a[0]
                from vf.oracle.deser import PATTERNS

                declared = {g.ext for g in s.a if g.properties is None and not g.flatten}
                for key in list(out):
                    if key in declared or key in consumed:
                        continue
                    if f.properties is True or PATTERNS[f.properties](key):
                        consumed.add(key)
                        out[key] = self.norm(m.a[1], out[key])
            else:
                a = self.opts.aliaser(static_alias(s, f))
                if a in out:
                    consumed.add(a)
                    fsp = f.sp
                    if f.none_as_undefined and fsp.k == "opt":
                        fsp = fsp.a[0]
                    out[a] = self.norm(fsp, out[a])


def resolve_lits(x, pick):
    """literal positions have several candidate coercions: expand them"""
    if isinstance(x, tuple) and len(x) == 2 and x[0] == "__lit__":
        return pick(x[1])
    if isinstance(x, list):
        return [resolve_lits(v, pick) for v in x]
    if isinstance(x, dict):
        return {k: resolve_lits(v, pick) for k, v in x.items()}
    return x


def has_lit(x) -> bool:
    if isinstance(x, tuple) and len(x) == 2 and x[0] == "__lit__":
        return True
    if isinstance(x, list):
        return any(has_lit(v) for v in x)
    if isinstance(x, dict):
        return any(has_lit(v) for v in x.values())
    return False


class Inst:
    def __init__(self, job):
        from apischema import ValidationError, deserialization_method

        self.job = job
        self.variant = job["variant"]
        self.prog = program_of(job)
        self.strict = deserialization_method(self.prog.tp)
        self.coerce = deserialization_method(self.prog.tp, coerce=True)
        self.VE = ValidationError
        self.opts = ref_opts(job)
        self.bounds = bounds_of(job)
        self.norm = Norm(self.prog, self.opts)
        self.functions = sorted(set(method_classes(self_of(self.coerce)) + method_classes(self_of(self.strict)) + ["apischema.deserialization.coercion.coerce"]))
        self.expect_tags = ["coerce-accepts"]
        self.assumptions = ["str / float leaves from finite pools, ints in [-int_abs, int_abs] (int(str), str(int), dict lookups realise)"]
        self.relax = ()

    def out(self, m, d):
        try:
            return ("ok", m(d))
        except self.VE as e:
            return ("err", e.errors)

    def body(self, ctx: Ctx) -> Optional[Failure]:
        d = Gen(ctx, self.prog, self.bounds, self.opts).json(self.prog.spec)
        ctx.witness = d
        ctx.run_phase()
        try:
            c = self.out(self.coerce, d)
        except Exception:
            ctx.notes["tag:crash"] = True  # C03's subject
            return None
        s = self.out(self.strict, d)
        if c[0] == "ok":
            ctx.notes["tag:coerce-accepts"] = True
        if s[0] == "ok" and c[0] != "ok":
            return Failure("coercion-narrows", witness=d, extra={"strict": s, "coerce": c})
        if self.variant == "monotone":
            return None
        if s[0] == "ok" and not same(s[1], c[1]):
            return Failure("coercion-changes-accepted-result", witness=d, extra={"strict": s, "coerce": c})
        n = self.norm.norm(self.prog.spec, d)
        if has_lit(n):
            # literal positions: accepted iff some candidate coercion is accepted
            outs = []
            for i in range(3):
                cand = resolve_lits(n, lambda cs, i=i: cs[min(i, len(cs) - 1)])
                outs.append(self.out(self.strict, cand))
            ref = next((o for o in outs if o[0] == "ok"), outs[0])
        else:
            ref = self.out(self.strict, n)
        if ref[0] != c[0]:
            kind = "coerce-accepts-beyond-table" if c[0] == "ok" else "coerce-rejects-table-entry"
            return Failure(kind, witness=d, extra={"normalised": n, "strict_on_normalised": ref, "coerce": c})
        if c[0] == "ok" and not same(ref[1], c[1]):
            return Failure("coerced-value-differs", witness=d, extra={"normalised": n, "strict_on_normalised": ref, "coerce": c})
        return None


class Custom:
    """custom coercer returning right- or wrong-typed results: the result is type-checked"""

    RIGHT = {"int": 7, "float": 1.5, "str": "s", "bool": True, "NoneType": None}
    WRONG = {"int": "x", "float": "x", "str": 3, "bool": "x", "NoneType": 0}

    def __init__(self, job):
        from apischema import ValidationError, deserialization_method

        self.job = job
        self.name = job["cls"]
        self.cls = {"int": int, "float": float, "str": str, "bool": bool, "NoneType": type(None)}[self.name]
        self.mode = {"v": "right"}
        VE = ValidationError

        def coercer(cls, data):
            if cls is not self.cls:
                if isinstance(data, cls):
                    return data
                raise VE("no")
            if self.mode["v"] == "unhashable":
                return [1]  # wrong-typed for every primitive class, and unhashable
            return (self.RIGHT if self.mode["v"] == "right" else self.WRONG)[self.name]

        self.m = deserialization_method(self.cls, coerce=coercer)
        from typing import List, Literal, Optional

        self.ml = deserialization_method(List[self.cls], coerce=coercer)
        # the same coercer behind a Literal of that class and behind Optional (round 4)
        self.shapes = {"plain": (self.m, lambda x: x), "list": (self.ml, lambda x: [x])}
        if self.name != "NoneType":
            self.shapes["literal"] = (deserialization_method(Literal[self.RIGHT[self.name]], coerce=coercer), lambda x: x)
            self.shapes["optional"] = (deserialization_method(Optional[self.cls], coerce=coercer), lambda x: x)
        self.VE = VE
        self.bounds = bounds_of(job)
        self.functions = ["apischema.deserialization.methods.CoercerMethod.deserialize"] + method_classes(self_of(self.m))
        self.expect_tags = ["right", "wrong"]
        self.assumptions = []
        self.relax = ()

    def body(self, ctx: Ctx):
        from vf.sym import KINDS

        g = Gen.__new__(Gen)
        g.ctx, g.b, g.budget = ctx, self.bounds, 1
        d = g.shallow(ctx.pick(KINDS, "kind"))
        self.mode["v"] = ctx.pick(["right", "wrong", "unhashable"], "mode")
        shape = ctx.pick(sorted(self.shapes), "shape")
        method, wrap = self.shapes[shape]
        in_list = shape == "list"
        ctx.witness = [d] if in_list else d
        ctx.run_phase()
        if shape == "optional" and d is None:
            raise Assume("None is a value of Optional: the coercer is not consulted")
        if shape == "literal":
            # a Literal looks the datum up first: the coercer is consulted only for a hashable
            # datum that is not one of the values (1 == 1.0 == True identify with 7 never, with
            # 1.5 / True / 's' only themselves)
            if isinstance(d, (list, dict)):
                raise Assume("unhashable datum: refused as ill-typed before any coercion")
            if d == self.RIGHT[self.name]:
                raise Assume("the datum is the literal value itself")
        try:
            r = method(wrap(d))
            ok = True
        except self.VE:
            ok = False
        except Exception as e:
            return Failure("crash", type(e).__name__, witness=ctx.witness, extra={"exc": type(e).__name__})
        ctx.notes["tag:" + self.mode["v"]] = True
        if self.mode["v"] == "unhashable":
            ctx.notes["tag:wrong"] = True
        if self.mode["v"] in ("wrong", "unhashable") and ok:
            return Failure("wrong-typed-coercer-result-accepted", witness=ctx.witness, extra={"result": r})
        if self.mode["v"] == "right":
            exp = self.RIGHT[self.name]
            if not ok or not same(r, [exp] if in_list else exp):
                return Failure("right-typed-coercer-result-refused", witness=ctx.witness)
        return None


def identity_coercer(cls, data):
    return data


class PassThrough:
    """a custom coercer that returns its datum unchanged (right- or wrong-typed, as it
    comes): since the result is still type-checked, the outcome must be the strict one"""

    def __init__(self, job):
        from apischema import ValidationError, deserialization_method

        self.job = job
        self.prog = program_of(job)
        self.strict = deserialization_method(self.prog.tp)
        self.custom = deserialization_method(self.prog.tp, coerce=identity_coercer)
        self.VE = ValidationError
        self.opts = ref_opts(job)
        self.bounds = bounds_of(job)
        self.functions = sorted(set(method_classes(self_of(self.custom)) + method_classes(self_of(self.strict))))
        self.expect_tags = ["compared"]
        self.assumptions = []
        self.relax = ()

    def body(self, ctx: Ctx):
        d = Gen(ctx, self.prog, self.bounds, self.opts).json(self.prog.spec)
        ctx.witness = d
        ctx.run_phase()
        out = []
        for m in (self.strict, self.custom):
            try:
                out.append(("ok", m(d)))
            except self.VE:
                out.append(("err", None))
            except Exception as e:
                return Failure("crash", type(e).__name__, witness=d, extra={"exc": type(e).__name__})
        ctx.notes["tag:compared"] = True
        from vf.harness.C13 import num_eq

        if self.relax and out[0][0] == "err" and out[1][0] == "ok":
            from vf.oracle.deser import RefDeser

            if not RefDeser(self.prog, self.opts).run(d)[0] and RefDeser(self.prog, self.opts, self.relax).run(d)[0]:
                return None  # the *strict* run is the one hit by the known finding
        if out[0][0] != out[1][0] or (out[0][0] == "ok" and not num_eq(out[0][1], out[1][1])):
            return Failure("custom-coercer-result-not-type-checked", witness=d, extra={"strict": out[0], "custom": out[1]})
        return None


def make(job):
    v = job["variant"]
    return Custom(job) if v == "custom" else PassThrough(job) if v == "passthrough" else Inst(job)
