"""C04: serialization yields the JSON image prescribed by the type (DESIGN.md 4/C04)."""
from __future__ import annotations

from typing import Optional

from vf import pools
from vf.engine import Ctx, Failure
from vf.harness.common import bounds_of, get_aliaser, method_classes, program_of, self_of
from vf.harness.deser_e2e import has_obj, n_positions
from vf.oracle.ser import RefSer, SerOpts, json_only
from vf.specs import walk
from vf.sym import Val, same

OPTSETS = [
    {},
    {"exclude_none": True},
    {"exclude_defaults": True},
    {"exclude_none": True, "exclude_defaults": True},
    {"aliaser": "prefix"},
    {"check_type": True},
    {"exclude_unset": False},
    {"additional_properties": True},
    {"fall_back_on_any": True, "check_type": True},
    {"additional_properties": True, "exclude_none": True},
]


def jobs(prop, tier, seed):
    out = []
    ser_ids = pools.ids("ser", tier)
    todo = [("ser", pid) for pid in ser_ids]
    # discriminated unions (class alternatives: the reference image adds the discriminator key)
    for pid in pools.ids("union", tier):
        spec, _ = pools.get("union", pid)
        if pid not in ser_ids and any(s.k == "disc" for s in walk(spec)) and not any(s.k == "obj" and s.opt("kind") == "typeddict" for s in walk(spec)):
            todo.append(("union", pid))
    for pool, pid in todo:
        spec, _ = pools.get(pool, pid)
        if has_obj(spec):
            optsets = OPTSETS if tier == "thorough" else OPTSETS[:6]
            if tier == "quick" and any(s.k == "obj" and s.opt("kind") == "typeddict" for s in walk(spec)):
                optsets = optsets + [OPTSETS[7], OPTSETS[9]]
            if any(s.k == "obj" and s.opt("fields_set") for s in walk(spec)):
                optsets = optsets + [OPTSETS[6]]
        else:
            optsets = [{}, {"check_type": True}] if tier == "quick" else [{}, {"check_type": True}, {"fall_back_on_any": True, "check_type": True}]
        for o in optsets:
            if tier == "quick":
                b = dict(depth=2, width=2, strlen=2, td_extra=True)
                budget_s = 25
            else:
                b = dict(depth=3, width=3, strlen=3, td_extra=True)
                budget_s = 120
            out.append(dict(harness="C04", pool=pool, pid=pid, opts=o, bounds=b, budget_s=budget_s))
    return out


def ser_kwargs(o: dict) -> dict:
    kw = {}
    for k in ("exclude_none", "exclude_defaults", "exclude_unset", "additional_properties", "check_type", "fall_back_on_any", "no_copy"):
        if k in o:
            kw[k] = o[k]
    if o.get("aliaser"):
        kw["aliaser"] = get_aliaser(o["aliaser"])
    return kw


def ser_opts(o: dict) -> SerOpts:
    return SerOpts(
        exclude_none=o.get("exclude_none", False),
        exclude_defaults=o.get("exclude_defaults", False),
        exclude_unset=o.get("exclude_unset", True),
        aliaser=get_aliaser(o.get("aliaser")),
        additional_properties=o.get("additional_properties", False),
    )


class Inst:
    def __init__(self, job):
        from apischema import serialization_method, serialize

        self.job = job
        self.prog = program_of(job)
        self.kw = ser_kwargs(job.get("opts", {}))
        self.method = serialization_method(self.prog.tp, **self.kw)
        self.serialize = serialize
        self.opts = ser_opts(job.get("opts", {}))
        self.bounds = bounds_of(job)
        self.functions = method_classes(self_of(self.method)) or ["apischema.serialization.methods.IdentityMethod.serialize"]
        self.expect_tags = ["compared"]
        self.assumptions = ["values are well-typed instances generated from the spec; Any positions hold concrete representatives"]
        self.relax = ()
        self.untyped_ok = self.prog.spec.k == "obj" and self.prog.spec.opt("kind") != "typeddict" and not self.prog.spec.opt("texpr")

    def body(self, ctx: Ctx) -> Optional[Failure]:
        v = Val(ctx, self.prog, self.bounds).val(self.prog.spec)
        ctx.witness = v
        ctx.run_phase()
        try:
            out = self.method(v)
        except Exception as e:
            return Failure("serialize-raises", type(e).__name__, witness=v, extra={"exc": type(e).__name__})
        exp = RefSer(self.prog, self.opts, self.relax).run(v)
        ctx.notes["tag:compared"] = True
        if not json_only(out):
            return Failure("non-json-output", witness=v, extra={"out": out})
        if not same(out, exp):
            return Failure("wrong-image", witness=v, extra={"out": out, "expected": exp})
        if isinstance(out, dict) and list(out.keys()) != list(exp.keys()):
            return Failure("wrong-key-order", witness=v, extra={"out": out, "expected": exp})
        if self.untyped_ok:
            kw = dict(self.kw)
            out2 = self.serialize(v, **kw)
            if not same(out2, out):
                return Failure("untyped-differs", witness=v, extra={"typed": out, "untyped": out2})
        return None


def make(job):
    return Inst(job)
