"""Bounded symbolic inputs (DESIGN.md 3.2).

JSON data: type-directed generation with a *deviation budget*.  At every position the JSON
kind is chosen by a fork among the kinds the spec can accept plus (while budget remains)
every other kind; leaves are fresh symbolic values; object keys / mapping keys / literal
candidates come from finite pools (hashing realises, DESIGN.md 2.3).
"""
from __future__ import annotations

import dataclasses
from dataclasses import dataclass
from typing import Any, List

from vf.engine import Assume, Ctx
from vf.oracle.deser import AnyOf, Opts, accepted_kinds, jkind
from vf.specs import F, Program, Sp, is_required, named, static_alias

KINDS = ["null", "bool", "int", "float", "str", "list", "dict"]
# wrong kinds tried below the top level unless Bounds.rich (stated bound)
NESTED_WRONG = ["null", "bool", "int", "str", "list"]


@dataclass
class Bounds:
    depth: int = 2
    width: int = 2
    strlen: int = 2
    budget: int = 2
    exotic: bool = False
    rich: bool = False  # all 7 wrong kinds at every depth, non-empty wrong containers
    int_abs: int = 0  # > 0: int leaves range over [-int_abs, int_abs] (str(int) forks per digit)
    float_pool: bool = False  # float leaves from a finite pool (str(float) / int(float) realise)
    str_pool: bool = False  # str leaves from a finite pool (int(str) / dict lookups realise)
    distinct_sets: bool = False  # no duplicate items at set-typed positions (C06 / C18 domain)
    td_extra: bool = False  # TypedDict values may carry an undeclared key (C04)
    alias_confusion: bool = False  # a field may come under a name other than its external one (C11)
    bad_arity: bool = False  # Val: at most one fixed-size tuple has one item too few / too many (C08, check_type)

    def as_dict(self):
        return dict(self.__dict__)


class IntSub(int):
    pass


class StrSub(str):
    pass


class DictSub(dict):
    pass


STR_POOL = ["", "0", "1", "7", "-3", "1.5", " 1", "1e2", "x", "a", "true", "No", "OFF", "yes ", "inf", "\uff11"]
FLOAT_POOL = [0.5, 1.0, -2.5, 1e300, float("nan"), float("inf")]
NESTED_EXOTIC = ["tuple", "strsub", "nonstrkey", "huge"]
EXOTIC = ["bytes", "tuple", "intsub", "strsub", "dictsub", "nonstrkey", "inf", "nan", "huge", "set", "object"]


class Gen:
    def __init__(self, ctx: Ctx, prog: Program, bounds: Bounds, opts: Opts = None):
        self.ctx = ctx
        self.prog = prog
        self.b = bounds
        self.opts = opts or Opts()
        self.defs = named(prog.spec)
        self.budget = bounds.budget
        self.truncated = False
        self.hashed = 0  # > 0 while generating elements the code will put in a set

    # ------------------------------------------------------------------ leaves
    def shallow(self, kind: str):
        c = self.ctx
        if kind == "null":
            return None
        if kind == "bool":
            return c.bool("b")
        if kind == "int":
            if self.b.int_abs:
                return c.int("i", -self.b.int_abs, self.b.int_abs)
            return c.int("i")
        if kind == "float":
            if self.b.float_pool:
                return c.pick(FLOAT_POOL, "fp")
            return c.float("f")
        if kind == "str":
            if self.b.str_pool:
                return c.pick(STR_POOL, "sp")
            return c.str("s", self.b.strlen)
        if kind == "list":
            return [c.int("i")] if (self.b.rich and c.flag("ne")) else []
        if kind == "dict":
            return {"k0": c.int("i")} if (self.b.rich and c.flag("ne")) else {}
        return self.exotic(kind)

    def exotic(self, kind: str):
        c = self.ctx
        if kind == "bytes":
            return b"ab"
        if kind == "tuple":
            return (c.int("i"),)
        if kind == "intsub":
            return IntSub(3)
        if kind == "strsub":
            return StrSub("a")
        if kind == "dictsub":
            return DictSub(k0=1)
        if kind == "nonstrkey":
            # non-string keys of several classes, alone, next to a string key, and two of them
            # that cannot be ordered against each other (None / tuple / bytes)
            how = c.choice(6, "keys")
            i = c.int("i")
            return [{1: i}, {1: i, "k0": 0}, {None: i}, {None: i, (1, 2): 0}, {(1, "a"): i, ("a", 1): 0, "k0": 0}, {b"k": i}][how]
        if kind == "inf":
            return float("inf") if c.flag("pos") else float("-inf")
        if kind == "nan":
            return float("nan")
        if kind == "huge":
            return 10**400 if c.flag("pos") else -(10**400)
        if kind == "set":
            return {1, 2}
        if kind == "object":
            return object()
        raise ValueError(kind)

    def deviate(self) -> bool:
        """spend one unit of budget if any is left"""
        if self.budget > 0:
            self.budget -= 1
            return True
        return False

    # ------------------------------------------------------------------ positions
    def json(self, s: Sp, depth: int = None):
        if depth is None:
            depth = self.b.depth
        acc = [k for k in KINDS if k in accepted_kinds(self.prog.spec, s)]
        cands = list(acc)
        if self.budget > 0:
            excl = self.excluded_kinds(s)
            top = depth >= self.b.depth
            wrong = KINDS if (self.b.rich or top) else NESTED_WRONG
            cands += [k for k in wrong if k not in acc and k not in excl]
            if self.b.exotic and len(acc) < len(KINDS):
                # non-JSON values are deviations only where the type does not accept
                # everything; NaN / inf are ordinary float leaves where float is accepted
                ex = EXOTIC if (self.b.rich or top) else NESTED_EXOTIC
                # a 10**400 next to a symbolic float inside a set is beyond CrossHair's set
                # model (OverflowError artefact, probed): kept out of hashed positions
                cands += [
                    k
                    for k in ex
                    if not (k in ("nan", "inf") and "float" in acc) and not (k == "huge" and self.hashed)
                ]
        if not cands:
            raise Assume("no candidate kind")
        kind = self.ctx.pick(cands, "kind")
        if kind not in acc:
            self.budget -= 1
            return self.shallow(kind)
        return self.directed(s, kind, depth)

    def excluded_kinds(self, s: Sp) -> set:
        """domain exclusion (DESIGN.md 3.3): at Literal / Enum positions, data of another
        numeric kind that Python's == identifies with a literal (1 == 1.0 == True)"""
        base = s
        while base.k in ("ann", "newtype", "undef", "opt", "sub"):
            base = base.a[0]
        if base.k == "union":
            out = set()
            for a in base.a:
                out |= self.excluded_kinds(a)
            return out
        if base.k in ("lit", "enum"):
            kinds = {jkind(v) for v in base.a}
            if kinds & {"int", "bool", "float"}:
                return {"float"}
        return set()

    def directed(self, s: Sp, kind: str, depth: int):
        c = self.ctx
        k = s.k
        if k == "ref":
            return self.directed(self.defs[s.opt("name")], kind, depth)
        if k == "sub":
            # cls(value) is a C-level constructor: it realises its argument, so leaves under
            # a primitive subclass range over small finite domains (stated bound)
            saved = self.b
            self.b = dataclasses.replace(saved, int_abs=3, str_pool=True, float_pool=True)
            try:
                return self.directed(s.a[0], kind, depth)
            finally:
                self.b = saved
        if k in ("ann", "newtype", "undef"):
            uniq = k == "ann" and bool(dict(s.opt("c") or ()).get("unique"))
            self.hashed += uniq
            try:
                r = self.directed(s.a[0], kind, depth)
            finally:
                self.hashed -= uniq
            if k == "ann" and dict(s.opt("c") or ()).get("unique") and isinstance(r, list):
                for x in r:  # NaN is not reflexive: outside the oracle domain of uniqueItems
                    if isinstance(x, float) and x != x:
                        raise Assume("NaN under uniqueItems")
            return r
        if k == "opt":
            if kind == "null":
                return None
            return self.directed(s.a[0], kind, depth)
        if k == "union":
            alts = [a for a in s.a if kind in accepted_kinds(self.prog.spec, a)]
            return self.directed(c.pick(alts, "alt"), kind, depth)
        if k in ("int", "float", "str", "bool", "none"):
            return self.shallow(kind)
        if k == "any":
            return self.shallow(kind)
        if k in ("lit", "enum"):
            vals = [v for v in s.a if jkind(v) == kind]
            pool = list(vals)
            if self.budget > 0:
                pool.append(self.non_member(kind, vals))
                if self.b.str_pool and kind == "str":
                    # coercion runs: strings that int() / the boolean table would turn into
                    # a value hash-equal to another literal (1 == True)
                    pool += [x for x in ("1", " 1", "0", "true", "No") if x not in vals]
            idx = c.choice(len(pool), "lit")
            if idx >= len(vals):
                self.budget -= 1
            return pool[idx]
        if k in ("list", "seq", "set", "fset", "vtuple"):
            if depth <= 0:
                self.truncated = True
                return []
            n = c.choice(self.b.width + 1, "len")
            self.hashed += k in ("set", "fset")
            try:
                out = [self.json(s.a[0], depth - 1) for _ in range(n)]
            finally:
                self.hashed -= k in ("set", "fset")
            if k in ("set", "fset"):
                for x in out:  # NaN is not reflexive: outside the oracle domain for sets
                    if isinstance(x, float) and x != x:
                        raise Assume("NaN in a set")
                if self.b.distinct_sets:
                    from vf.oracle.deser import _unique

                    if not _unique(out):
                        raise Assume("duplicate items at a set-typed position")
            return out
        if k == "tuple":
            n = len(s.a)
            lens = [n]
            if self.budget > 0:
                lens += [n + 1] + ([n - 1] if n > 0 else [])
            m = c.pick(lens, "tlen")
            if m != n:
                self.budget -= 1
            out = []
            for i in range(m):
                out.append(self.json(s.a[i], depth - 1) if i < n else c.int("i"))
            return out
        if k == "map":
            if depth <= 0:
                self.truncated = True
                return {}
            out = {}
            for key in self.map_keys(s.a[0]):
                if c.flag("has"):
                    out[key] = self.json(s.a[1], depth - 1)
            return out
        if k == "obj":
            out: dict = {}
            self.obj_into(s, out, depth, top=True)
            return out
        if k == "disc":
            alt = c.pick(list(s.a), "alt")
            while alt.k in ("ref", "ann", "newtype"):
                alt = self.defs[alt.opt("name")] if alt.k == "ref" else alt.a[0]
            out = {}
            self.obj_into(alt, out, depth, top=True)
            keys = [key for key, _ in s.opt("mapping")]
            cands = [("k", key) for key in keys]
            if self.budget > 0:
                cands += [("absent", None), ("k", "zz"), ("k", 1), ("k", ["x"])]
            how, key = c.pick(cands, "disc")
            if how == "k":
                if key not in keys:
                    self.budget -= 1
                out[self.opts.aliaser(s.opt("alias"))] = key
            else:
                self.budget -= 1
            return out
        raise ValueError(k)

    def non_member(self, kind, vals):
        if kind == "int":
            return max(vals) + 1
        if kind == "str":
            return "zz"
        if kind == "bool":
            return not vals[0]
        if kind == "float":
            return max(vals) + 0.5
        return None

    def map_keys(self, ks: Sp) -> List[str]:
        base = ks
        cs = ()
        while base.k in ("ann", "newtype"):
            cs += tuple(base.opt("c") or base.opt("schema") or ())
            base = base.a[0]
        if base.k in ("lit", "enum"):
            return [v for v in base.a if isinstance(v, str)][: self.b.width] + ["zz"]
        pat = dict(cs).get("pattern")
        if pat is not None:
            return [MATCHING[pat], "zz"]
        return ["k0", "k1", "k2"][: self.b.width]

    def obj_into(self, s: Sp, out: dict, depth: int, top: bool):
        c = self.ctx
        ext = self.opts.aliaser
        fields = [f for f in s.a if "deserialization" not in f.skip and (f.init or f.initvar)]
        for f in fields:
            if f.flatten:
                sub = f.sp
                while sub.k in ("ref", "ann", "newtype", "opt"):
                    sub = self.defs[sub.opt("name")] if sub.k == "ref" else sub.a[0]
                self.obj_into(sub, out, depth, top=False)
                continue
            if isinstance(f.properties, str):
                m = f.sp
                while m.k in ("ann", "newtype"):
                    m = m.a[0]
                if c.flag("has"):
                    out[MATCHING[f.properties]] = self.json(m.a[1], depth - 1)
                continue
            if f.properties is True:
                m = f.sp
                while m.k in ("ann", "newtype"):
                    m = m.a[0]
                if c.flag("has"):
                    # the field's own Python name is an additional property like any other
                    key = "zz" if f.name in out or not top else c.pick(["zz", f.name], "addl-key")
                    out[key] = self.json(m.a[1], depth - 1)
                continue
            required = is_required(s, f)
            a = ext(static_alias(s, f))
            if required and self.budget <= 0:
                present = True
            elif depth <= 0 and not required:
                present = False
            else:
                present = c.flag("has")
                if required and not present:
                    self.budget -= 1
            if present:
                sp = f.sp
                if f.none_as_undefined and sp.k == "opt":
                    sp = sp.a[0]
                key = a
                if self.b.alias_confusion and self.budget > 0:
                    sa = static_alias(s, f)
                    wrong = []
                    for w in (f.name, f.alias or f.name, sa, ext(f.alias or f.name), ext(f.name)):
                        if w != a and w not in wrong:
                            wrong.append(w)
                    key = c.pick([a] + wrong, "name")
                    if key != a:
                        self.budget -= 1
                out[key] = self.json(sp, depth - 1)
        if top:
            has_addl = any(f.properties is True for f in fields)
            if not has_addl and (self.budget > 0 or self.opts.additional_properties):
                if c.flag("extra"):
                    if not self.opts.additional_properties:
                        self.budget -= 1
                    # an undeclared key: a fresh one, the Python name of an aggregate field, or
                    # the Python name of a field known under another external name
                    names = ["zz"]
                    for f in fields:
                        if (f.flatten or f.properties is not None or ext(static_alias(s, f)) != f.name) and f.name not in names:
                            names.append(f.name)
                    declared = {ext(static_alias(s, f)) for f in fields if not f.flatten and f.properties is None}
                    names = [n for n in names if n not in declared and n not in out][:3]
                    out[names[0] if len(names) == 1 else c.pick(names, "extra-key")] = c.int("i")


_MISSING = object()
MATCHING = {"^a": "a1", "^[0-9]+$": "12", "^a+b?$": "ab", "^x_": "x_1", "^p": "p1"}


# ---------------------------------------------------------------------------- equality
def same(a, b) -> bool:
    """structural equality with runtime classes, NaN == NaN; never hashes a leaf"""
    import dataclasses as dc
    import enum

    if a is b:
        return True
    if isinstance(b, AnyOf):
        return any(same(a, v) for v in b.values)
    ta, tb = type(a), type(b)
    if ta is not tb:
        return False
    if ta is float:
        return a == b or (a != a and b != b)
    if ta in (list, tuple):
        return len(a) == len(b) and all(same(x, y) for x, y in zip(a, b))
    if ta is dict:
        if len(a) != len(b):
            return False
        for k in a:
            if k not in b or not same(a[k], b[k]):
                return False
        return True
    if dc.is_dataclass(a):
        return all(
            same(getattr(a, f.name, _MISSING), getattr(b, f.name, _MISSING))
            for f in dc.fields(a)
        )
    if isinstance(a, tuple):  # NamedTuple
        return len(a) == len(b) and all(same(x, y) for x, y in zip(a, b))
    if isinstance(a, enum.Enum):
        return a is b
    return bool(a == b)


def snapshot(d):
    """structure of a datum: container identities, lengths and keys (leaves are immutable)"""
    if isinstance(d, list):
        return ("list", id(d), len(d), [snapshot(x) for x in d], [id(x) for x in d])
    if isinstance(d, dict):
        return (
            "dict",
            id(d),
            list(d.keys()),
            [snapshot(v) for v in d.values()],
            [id(v) for v in d.values()],
        )
    return ("leaf", id(d))


def containers(x, acc=None):
    """ids of the mutable containers inside a value"""
    import dataclasses as dc

    if acc is None:
        acc = {}
    if isinstance(x, (list, dict, set)):
        acc[id(x)] = x
    if isinstance(x, (list, tuple, set, frozenset)):
        for v in x:
            containers(v, acc)
    elif isinstance(x, dict):
        for v in x.values():
            containers(v, acc)
    elif dc.is_dataclass(x) and not isinstance(x, type):
        d = getattr(x, "__dict__", None)
        if type(d) is dict:  # the attribute dict of an instance is a mutable container too
            acc[id(d)] = d
        for f in dc.fields(x):
            containers(getattr(x, f.name, None), acc)
    return acc


# ---------------------------------------------------------------------- typed values
ANY_VALUES = [None, True, 3, 2.5, "s", [1, "x"], {"k": 1}]


class Val:
    """typed values of a spec with symbolic leaves (DESIGN.md 3.2): Optional / Union /
    enum member / Undefined / lengths / presence of defaulted arguments by forks"""

    def __init__(self, ctx: Ctx, prog: Program, bounds: Bounds, respect_constraints=False):
        self.ctx = ctx
        self.prog = prog
        self.b = bounds
        self.defs = named(prog.spec)
        self.respect = respect_constraints
        self.hashed = 0
        self.ill_typed = False

    def val(self, s: Sp, depth: int = None, cs: tuple = ()):
        from apischema import Undefined

        c = self.ctx
        if depth is None:
            depth = self.b.depth
        k = s.k
        if k == "ref":
            return self.val(self.defs[s.opt("name")], depth, cs)
        if k == "ann":
            return self.val(s.a[0], depth, tuple(s.opt("c")) + cs)
        if k == "newtype":
            return self.val(s.a[0], depth, tuple(s.opt("schema") or ()) + cs)
        if k == "sub":
            base = s.a[0]
            if base.k == "int":
                raw = c.int("i", -3, 3)
            elif base.k == "str":
                raw = c.pick(["", "a", "zz"], "sp")
            else:
                raw = c.pick(FLOAT_POOL[:3], "fp")
            return self.prog.cls(s.opt("name"))(raw)
        if k == "int":
            v = c.int("i")
            self.constrain(cs, v, "num")
            return v
        if k == "float":
            v = c.float("f")
            if self.hashed and v != v:
                raise Assume("NaN in a set")
            self.constrain(cs, v, "num")
            return v
        if k == "str":
            v = c.str("s", self.b.strlen)
            self.constrain(cs, v, "str")
            return v
        if k == "bool":
            return c.bool("b")
        if k == "none":
            return None
        if k == "any":
            v = c.pick(ANY_VALUES, "any")
            # a value of a constrained Any satisfies the constraints of its own JSON type
            fam = {int: "num", float: "num", str: "str", list: "arr", dict: "obj"}.get(type(v))
            if fam:
                self.constrain(cs, v, fam)
            return v
        if k == "opt":
            if depth <= 0 or c.flag("none"):
                return None
            return self.val(s.a[0], depth, cs)
        if k == "undef":
            if c.flag("undef"):
                return Undefined
            return self.val(s.a[0], depth, cs)
        if k == "union":
            return self.val(c.pick([a for a in s.a if a.k != "unsup"], "alt"), depth, cs)
        if k in ("list", "seq", "set", "fset", "vtuple"):
            n = 0 if depth <= 0 else c.choice(self.b.width + 1, "len")
            self.hashed += k in ("set", "fset")
            try:
                items = [self.val(s.a[0], depth - 1) for _ in range(n)]
            finally:
                self.hashed -= k in ("set", "fset")
            self.constrain(cs, items, "arr")
            if dict(cs).get("unique"):
                for x in items:
                    if isinstance(x, float) and x != x:
                        raise Assume("NaN under uniqueItems")
            if k in ("list", "seq"):
                return items
            if k in ("set", "fset"):
                v = set(items) if k == "set" else frozenset(items)
                # the item-count constraints hold for the set itself (duplicates collapse)
                self.constrain(cs, list(v), "arr")
                return v
            return tuple(items)
        if k == "tuple":
            items = tuple(self.val(a, depth - 1) for a in s.a)
            self.constrain(cs, items, "arr")
            if self.b.bad_arity and not self.ill_typed and s.a and c.flag("bad-arity"):
                self.ill_typed = True
                items = items[:-1] if c.flag("shorter") else items + items[-1:]
            return items
        if k == "map":
            out = {}
            if depth > 0:
                kb = s.a[0]
                while kb.k in ("ann", "newtype"):
                    kb = kb.a[0]
                for key in self.map_keys(s.a[0]):
                    if c.flag("has"):
                        if kb.k == "enum":  # typed key: the member whose value is the JSON key
                            key = getattr(self.prog.cls(kb.opt("name")), "m%d" % list(kb.a).index(key))
                        out[key] = self.val(s.a[1], depth - 1)
            self.constrain(cs, out, "obj")
            return out
        if k == "lit":
            return c.pick(list(s.a), "lit")
        if k == "enum":
            cls = self.prog.cls(s.opt("name"))
            return getattr(cls, "m%d" % c.choice(len(s.a), "enum"))
        if k == "obj":
            return self.obj(s, depth, cs)
        if k == "disc":
            return self.val(c.pick(list(s.a), "alt"), depth, cs)
        raise ValueError(k)

    def map_keys(self, ks: Sp):
        g = Gen.__new__(Gen)
        g.b = self.b
        keys = g.map_keys(ks)
        return [x for x in keys if x != "zz"]

    def constrain(self, cs, v, fam):
        if not self.respect or not cs:
            return
        from vf.oracle.deser import check_constraints

        errs: list = []
        check_constraints(cs, v, fam, (), errs)
        if errs:
            raise Assume("value violates the schema constraints of its type")

    def obj(self, s: Sp, depth: int, cs):
        c = self.ctx
        kind = s.opt("kind")
        vals = {}
        if s.opt("tagged"):
            f = c.pick(list(s.a), "tag")
            return self.prog.cls(s.opt("name"))(**{f.name: self.val(f.sp.a[0], depth - 1)})
        for f in s.a:
            if kind == "dataclass" and not f.init and not f.initvar:
                continue
            if kind == "typeddict":
                if not is_required(s, f) and not c.flag("has"):
                    continue
            elif f.has_default and not (depth > 0 and c.flag("given")):
                continue
            fsp = f.sp
            if isinstance(f.properties, str):
                sub = self.val(fsp, depth - 1, tuple(f.schema))
                vals[f.name] = {MATCHING[f.properties]: x for x in list(sub.values())[:1]}
                continue
            vals[f.name] = self.val(fsp, depth - 1, tuple(f.schema))
        if kind == "typeddict":
            if self.b.td_extra and c.flag("extra"):
                vals["zz"] = c.pick([1, "x", None, [2]], "xv")  # undeclared key; concrete (Any position)
            self.constrain(cs, vals, "obj")
            return vals
        return self.prog.cls(s.opt("name"))(**vals)
