"""Aggregation of job results: replay, known findings, evidence file, verdict lines."""
from __future__ import annotations

import hashlib
import json
import os
import subprocess
import sys

from vf.run import ROOT, enc

MAX_FRESH_REPLAYS = 6


def load_known():
    path = os.path.join(ROOT, "known_findings.json")
    if not os.path.exists(path):
        return {"findings": [], "fixed": []}
    return json.load(open(path))


def write_replay(prop, job, failure):
    d = os.path.join(ROOT, "replays", prop)
    os.makedirs(d, exist_ok=True)
    rec = {
        "property": prop,
        "job": job,
        "kind": failure["kind"],
        "inputs": enc(failure["inputs"]),
        "witness": enc(failure.get("witness")),
        "extra": enc(failure.get("extra")),
        "detail": failure.get("detail"),
        "replay_cmd": "cd /verif && ./check --replay <this file>",
    }
    blob = json.dumps(rec, sort_keys=True, default=repr)
    h = hashlib.sha1(blob.encode()).hexdigest()[:12]
    path = os.path.join(d, f"{h}.json")
    with open(path, "w") as f:
        json.dump(rec, f, indent=1, default=repr)
    return path


def fresh_replay(path) -> bool:
    """re-execute the counterexample in a fresh interpreter without CrossHair"""
    env = dict(os.environ)
    env["PYTHONPATH"] = (os.environ["VF_SRC"] + os.pathsep if os.environ.get("VF_SRC") else "") + ROOT  # VF_SRC: seed triage only
    p = subprocess.run(
        [sys.executable, "-m", "vf.run", "--replay", path],
        cwd=ROOT,
        env=env,
        capture_output=True,
        text=True,
        timeout=300,
    )
    return p.returncode == 1


def js_cross_check(results):
    """translator validation of the JSON Schema evaluator (DESIGN.md 3.3)"""
    triples = []
    for r in results:
        triples.extend(r.get("js_triples") or [])
    if not triples:
        return None
    import tempfile

    with tempfile.NamedTemporaryFile("w", suffix=".json", delete=False) as f:
        json.dump(triples, f)
        path = f.name
    try:
        p = subprocess.run(
            ["python3-vt", os.path.join(ROOT, "vf", "jscheck.py"), path],
            capture_output=True, text=True, timeout=600,
        )
        out = json.loads(p.stdout.strip().splitlines()[-1])
        out["library"] = "jsonschema (python3-vt)"
        return out
    except Exception as e:
        return {"checked": 0, "n_disagreements": 0, "error": f"cross-check unavailable: {e!r}"}
    finally:
        os.unlink(path)


def report(prop, tier, seed, results, wall, write=True) -> int:
    from vf import known as known_mod

    known = load_known()
    kf = [k for k in known["findings"] if k["property"] == prop]
    tot = dict(paths=0, confirmed=0, refuted=0, ignored=0, unknown=0, nontrivial=0, solver_queries=0)
    solver_time = 0.0
    functions, assumptions, notes = set(), set(), set()
    discharged = inconclusive = violated = errors = 0
    known_hits = {}
    new_viol = []
    nonrepro = []
    vacuous = []
    samples = []
    per_job = []
    for r in results:
        job = r["job"]
        for k in tot:
            tot[k] += r.get(k, 0) or 0
        solver_time += r.get("solver_time", 0) or 0
        functions.update(r.get("functions", []))
        assumptions.update(r.get("assumptions", []))
        if r.get("method_note"):
            notes.add(r["method_note"])
        st = r["status"]
        if st == "error":
            errors += 1
            print(f"HARNESS-ERROR job={job.get('pid')} {job.get('opts')} {r.get('error', '')[:1500]}")
        if r.get("vacuous_tags") and not r.get("failures"):
            vacuous.append((job, r["vacuous_tags"]))
        job_new = 0
        for f in r.get("failures", []):
            if not f.get("reproduced"):
                nonrepro.append((job, f))
                continue
            hit = None
            for k in kf:
                pred = getattr(known_mod, k["predicate"])
                try:
                    matched = pred(job, f)
                except Exception:  # a predicate that cannot judge does not match
                    matched = False
                if matched:
                    hit = k
                    break
            if hit:
                known_hits.setdefault(hit["id"], [hit, 0, (job, f)])[1] += 1
            else:
                new_viol.append((job, f))
                job_new += 1
        if st == "violated" and job_new == 0 and not any(not f.get("reproduced") for f in r["failures"]):
            st2 = "known-finding"
        else:
            st2 = st
        if st2 == "discharged":
            discharged += 1
        elif st2 == "violated":
            violated += 1
        elif st2 in ("inconclusive", "known-finding"):
            inconclusive += 1
            if os.environ.get("VF_VERBOSE"):
                print("INCONCLUSIVE-JOB", st2, job.get("pid"), job.get("variant"), job.get("obs"), job.get("opts"), "paths", r.get("paths"), "unknown", r.get("unknown"), "exhausted", r.get("exhausted"))
        per_job.append(
            {
                "program": job.get("pid"),
                "variant": job.get("variant"),
                "opts": job.get("opts"),
                "bounds": job.get("bounds"),
                "status": st2,
                "paths": r.get("paths", 0),
                "exhausted": r.get("exhausted", False),
                "unknown_paths": r.get("unknown", 0),
                "reached": r.get("tags", {}),
                "cpu_s": r.get("cpu_s"),
            }
        )
        for s in (r.get("samples") or [])[:1]:
            if len(samples) < 12:
                samples.append({"program": job.get("pid"), "opts": job.get("opts"), "case": enc(s)})

    if os.environ.get("VF_VERBOSE"):
        for job, f in new_viol[:400]:
            print("NEW", job.get("pid"), job.get("variant"), job.get("obs"), f["kind"], json.dumps(enc(f.get("witness")))[:260])
    exit_code = 0
    js = js_cross_check(results)
    if js and js.get("n_disagreements"):
        errors += 1
        print(f"HARNESS-ERROR jsvalid disagrees with jsonschema: {json.dumps(js['disagreements'])[:1500]}")
    # known findings: listed, replayed once in a fresh interpreter, exit status unaffected
    kf_out = []
    for kid, (k, n, (job, f)) in sorted(known_hits.items()):
        print(f"KNOWN-FINDING: property={prop} {k['what']} [{kid}; {n} failing path(s)]")
        kf_out.append({"id": kid, "what": k["what"], "paths": n, "example": enc(f.get("witness"))})
    # new violations: fresh-process replay before anything is printed
    printed = 0
    seen_keys = set()
    for job, f in new_viol:
        key = (job.get("pid"), json.dumps(job.get("opts"), sort_keys=True), f["kind"])
        if key in seen_keys and printed >= 1:
            continue
        seen_keys.add(key)
        if printed >= MAX_FRESH_REPLAYS:
            break
        path = write_replay(prop, job, f)
        if fresh_replay(path):
            print(f"VIOLATION property={prop} replay={path}")
            print(f"  program={job.get('pid')} opts={job.get('opts')} kind={f['kind']} witness={json.dumps(enc(f.get('witness')))[:300]}")
            printed += 1
            exit_code = 1
        else:
            nonrepro.append((job, f))
    for job, f in nonrepro[:10]:
        print(
            f"INCONCLUSIVE property={prop} counterexample did not reproduce on the real code: "
            f"program={job.get('pid')} kind={f['kind']} inputs={json.dumps(enc(f['inputs']))[:300]} {f.get('replay_error', '')}"
        )
    for job, tags in vacuous[:10]:
        print(f"VACUOUS property={prop} job={job.get('pid')} {job.get('opts')} never reached: {tags}")
    strict = os.environ.get("VF_STRICT") == "1"
    if exit_code == 0 and (errors or vacuous or (strict and nonrepro)):
        exit_code = 3
    obligations = len(results)
    ev = {
        "property_id": prop,
        "tier": tier,
        "seed": seed,
        "level": "other",
        "coverage": {
            "explanation": (
                "bounded symbolic execution of the real code (CrossHair 0.0.110 / z3) driven by "
                "vf/engine.py; one obligation = one (harness, program, options, bounds) job; "
                "discharged = decision tree exhausted with every path confirmed, no unknown path; "
                "inconclusive jobs are not passes"
            ),
            "obligations": obligations,
            "discharged": discharged,
            "inconclusive": inconclusive,
            "violated_jobs": violated,
            "evaluations": tot["paths"],
            "distinct_nontrivial": tot["nontrivial"],
            "rule": (
                "one evaluation = one symbolic path (a class of inputs); non-trivial = a confirmed path on "
                "which the code under test or the oracle made >= 1 solver-decided branch on a symbolic leaf "
                "(paths that only took generator forks are not counted); paths are distinct by construction "
                "of the decision tree"
            ),
            "paths_confirmed": tot["confirmed"],
            "paths_refuted": tot["refuted"],
            "paths_outside_domain": tot["ignored"],
            "paths_unknown": tot["unknown"],
            "solver_queries": tot["solver_queries"],
            "solver_time_s": round(solver_time, 2),
            "programs": len({(j["program"]) for j in per_job}),
            "functions_encoded": sorted(functions),
            "samples": samples or [{"note": "no confirmed non-trivial path sampled"}],
            "method_notes": sorted(notes),
            "known_findings": kf_out,
            "evaluator_cross_check": js or "not applicable",
            "nonreproducing_counterexamples": len(nonrepro),
            "jobs": per_job,
            "exhaustive": bool(obligations and discharged == obligations),
            "trusted_base": [
                "CrossHair 0.0.110 interpretation of CPython bytecode and its models of builtins",
                "z3 5.1.0",
                "vf reference semantics (oracle) for the property",
                "stubs: proxy classes aliased in TYPE_TO_JSON_TYPE; lru_cache bypass removed",
            ],
        },
        "assumptions": sorted(assumptions)
        + [
            "bounds per job listed in coverage.jobs; nothing outside them is claimed",
            "object keys, mapping keys, literal candidates come from finite pools (hashing realises)",
        ],
        "wall_s": round(wall, 1),
        "violations": printed,
    }
    if write:
        os.makedirs(os.path.join(ROOT, "evidence"), exist_ok=True)
        with open(os.path.join(ROOT, "evidence", f"{prop}.json"), "w") as f:
            json.dump(ev, f, indent=1, default=repr)
    print(
        f"SUMMARY property={prop} tier={tier} jobs={obligations} discharged={discharged} "
        f"inconclusive={inconclusive} violated={violated} errors={errors} paths={tot['paths']} "
        f"nontrivial={tot['nontrivial']} solver_queries={tot['solver_queries']} wall={wall:.0f}s exit={exit_code}"
    )
    return exit_code
