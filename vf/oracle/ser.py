"""Reference semantics of serialization (DESIGN.md 3.3 / C04), written from
docs/de_serialization.md and docs/data_model.md.  Shares no code with apischema.

ser_image(prog, spec, v, opts) -> JSON image prescribed by the type.
"""
from __future__ import annotations

import enum
from typing import Any, Callable

from vf.specs import F, Program, Sp, default_value, named, static_alias


class SerOpts:
    def __init__(
        self,
        exclude_none=False,
        exclude_defaults=False,
        exclude_unset=True,
        aliaser: Callable[[str], str] = None,
        additional_properties=False,
    ):
        self.exclude_none = exclude_none
        self.exclude_defaults = exclude_defaults
        self.exclude_unset = exclude_unset
        self.aliaser = aliaser or (lambda s: s)
        self.additional_properties = additional_properties


class Undef:
    """marker: the value is serialized to nothing"""


def is_undefined(v) -> bool:
    return type(v).__name__ == "UndefinedType"


class RefSer:
    def __init__(self, prog: Program, opts: SerOpts = None, relax=()):
        self.prog = prog
        self.o = opts or SerOpts()
        self.defs = named(prog.spec)
        self.relax = frozenset(relax)

    def run(self, v, spec: Sp = None):
        return self.ser(spec or self.prog.spec, v)

    # ------------------------------------------------------------- runtime-class dispatch
    def matches(self, s: Sp, v) -> bool:
        """v is an instance of the class a union alternative stands for"""
        k = s.k
        if k == "ref":
            return self.matches(self.defs[s.opt("name")], v)
        if k in ("ann", "newtype"):
            return self.matches(s.a[0], v)
        if k == "sub":
            return isinstance(v, self.prog.cls(s.opt("name")))
        if k == "none":
            return v is None
        if k == "bool":
            return isinstance(v, bool)
        if k == "int":
            return isinstance(v, int)
        if k == "float":
            return isinstance(v, float)
        if k == "str":
            return isinstance(v, str)
        if k == "any":
            return True
        if k in ("opt", "union", "undef"):
            return (k == "opt" and v is None) or (k == "undef" and is_undefined(v)) or any(self.matches(a, v) for a in s.a)
        if k in ("list",):
            return isinstance(v, list)
        if k == "seq":
            return isinstance(v, (list, tuple))
        if k == "set":
            return isinstance(v, set)
        if k == "fset":
            return isinstance(v, frozenset)
        if k in ("vtuple", "tuple"):
            return isinstance(v, tuple)
        if k == "map":
            return isinstance(v, dict)
        if k == "lit":
            return any(type(v) is type(x) and v == x for x in s.a)
        if k == "enum":
            return isinstance(v, self.prog.cls(s.opt("name")))
        if k == "obj":
            if s.opt("kind") == "typeddict":
                return isinstance(v, dict)
            return isinstance(v, self.prog.cls(s.opt("name")))
        if k == "disc":
            return any(self.matches(self.defs[a.opt("name")] if a.k == "ref" else a, v) for a in s.a)
        raise ValueError(k)

    def any(self, v):
        """serialization by runtime class (Any / fall back)"""
        if v is None or isinstance(v, (bool, int, float, str)):
            if isinstance(v, enum.Enum):
                return self.any(v.value)
            return v
        if isinstance(v, enum.Enum):
            return self.any(v.value)
        if isinstance(v, dict):
            return {self.any(k): self.any(x) for k, x in v.items()}
        if isinstance(v, (list, tuple, set, frozenset)) and not hasattr(v, "_fields"):
            return [self.any(x) for x in v]
        for n, d in self.defs.items():
            if d.k == "obj" and d.opt("kind") != "typeddict" and type(v) is self.prog.cls(n):
                return self.ser(d, v)
        raise ValueError(f"no runtime serialization for {type(v)}")

    # --------------------------------------------------------------------- main recursion
    def ser(self, s: Sp, v):
        k = s.k
        if k == "ref":
            return self.ser(self.defs[s.opt("name")], v)
        if k in ("ann", "newtype", "sub"):
            return self.ser(s.a[0], v)
        if k in ("int", "float", "str", "bool", "none"):
            return v
        if k == "any":
            return self.any(v)
        if k == "opt":
            return None if v is None else self.ser(s.a[0], v)
        if k == "undef":
            return Undef if is_undefined(v) else self.ser(s.a[0], v)
        if k == "union":
            for a in s.a:
                if self.matches(a, v):
                    return self.ser(a, v)
            raise ValueError("no union alternative matches the value")
        if k in ("list", "seq", "set", "fset", "vtuple"):
            return [self.ser(s.a[0], x) for x in v]
        if k == "tuple":
            return [self.ser(c, x) for c, x in zip(s.a, v)]
        if k == "map":
            return {self.ser(s.a[0], key): self.ser(s.a[1], x) for key, x in v.items()}
        if k == "lit":
            return v
        if k == "enum":
            if s.opt("mixin"):
                # documented: an Enum that is also an int / str is already JSON data; the
                # member itself (an instance of the primitive) or its plain value
                from vf.oracle.deser import AnyOf

                return AnyOf([self.any(v.value), v])
            return self.any(v.value)
        if k == "obj":
            return self.ser_obj(s, v)
        if k == "disc":
            # documented: the alternative's own image plus the discriminator key, unless the
            # alternative already emits a field under that name
            for a in s.a:
                a = self.defs[a.opt("name")] if a.k == "ref" else a
                if a.opt("kind") == "typeddict" or not self.matches(a, v):
                    continue
                out = self.ser_obj(a, v)
                alias = self.o.aliaser(s.opt("alias"))
                if alias not in out:
                    out[alias] = next(key for key, cname in s.opt("mapping") if cname == a.opt("name"))
                return out
            raise ValueError("no discriminated alternative matches the value")
        raise ValueError(k)

    def ser_fields(self, s: Sp):
        return [f for f in s.a if "serialization" not in f.skip and not f.initvar]

    def ser_obj(self, s: Sp, v) -> dict:
        out: dict = {}
        td = s.opt("kind") == "typeddict"
        fields_set = None
        if s.opt("fields_set") and self.o.exclude_unset:
            fields_set = getattr(v, "_apischema_fields_set")
        for f in self.ser_fields(s):
            if td:
                if f.name not in v:
                    continue
                x = v[f.name]
            else:
                if fields_set is not None and f.name not in fields_set:
                    continue
                x = getattr(v, f.name)
            if self.omitted(s, f, x):
                continue
            fsp = f.sp
            if f.flatten or f.properties is not None:
                sub = self.ser(fsp, x)
                if sub is not None and sub is not Undef:
                    out.update(sub)
                continue
            img = self.ser(fsp, x)
            if img is Undef:
                continue
            out[self.o.aliaser(static_alias(s, f))] = img
        for name, alias, ret, kind in s.opt("smethods", ()):
            x = getattr(v, name) if kind == "property" else getattr(v, name)()
            if is_undefined(x):
                continue
            if x is None and self.o.exclude_none and ret.k == "opt":
                continue
            out[self.o.aliaser(alias)] = self.ser(ret, x)
        if td and self.o.additional_properties:
            declared = {f.name for f in s.a}
            for key, x in v.items():
                if isinstance(key, str) and key not in declared and key not in out:
                    out[key] = self.any(x)
        return out

    def omitted(self, s: Sp, f: F, x) -> bool:
        if is_undefined(x):
            return True
        optional = f.sp.k == "opt" or (f.sp.k == "undef" and f.sp.a[0].k == "opt")
        if x is None and (f.none_as_undefined or (self.o.exclude_none and optional)):
            return True
        for sk in f.skip:
            if sk.startswith("serialization_if:"):
                fn = getattr(self.prog.module, sk.split(":", 1)[1])
                if fn(x):
                    return True
        if f.has_default and not f.required_md and s.opt("kind") != "typeddict":
            if "serialization_default" in f.skip or self.o.exclude_defaults:
                d = default_value(self.prog, f)
                if not is_undefined(d) and bool(x == d):
                    return True
        return False


def json_only(x) -> bool:
    """dict with str keys / list / str / int / float / bool / None, exact classes"""
    t = type(x)
    if x is None or t in (bool, int, float, str):
        return True
    if isinstance(x, (int, float, str)):
        return True  # instance of a subclass of a JSON primitive (class MyInt(int))
    if t is list:
        return all(json_only(v) for v in x)
    if t is dict:
        return all(type(k) is str and json_only(v) for k, v in x.items())
    return False
