#!/bin/bash
# tools/seed_matrix.sh: every seeded change x the quick checks expected to see it.
# Writes seeded/<id>/last_run.txt; never commits to the repository.
cd "$(dirname "$0")/.."
declare -A EXTRA=( [C07-1]="C12" [C11-1]="C10" [C03-2]="C10" [C05-1]="C04" [C01-2]="C06" )
for d in seeded/*/; do
  id=$(basename "$d"); prop=${id%-*}
  props="$prop ${EXTRA[$id]:-}"
  echo "=== $id -> $props"
  tools/try_seed.sh "$(pwd)/seeded/$id" $props > "seeded/$id/last_run.txt" 2>&1
  grep -E "^== |^tests|^demo|^PATCH" "seeded/$id/last_run.txt"
done
