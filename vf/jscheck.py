"""Translator validation of vf/oracle/jsvalid.py: re-judge realised (schema, instance,
verdict) triples with the independent `jsonschema` library.  Runs under python3-vt (the
tooling venv), never next to apischema.   usage: python3-vt vf/jscheck.py triples.json"""
import json
import sys


def main(path):
    import jsonschema

    V = {
        "2020-12": jsonschema.Draft202012Validator,
        "openapi-3.1": jsonschema.Draft202012Validator,
        "2019-09": jsonschema.Draft201909Validator,
        "draft-07": jsonschema.Draft7Validator,
    }
    triples = json.load(open(path))
    bad = []
    n = 0
    for t in triples:
        cls = V.get(t["dialect"])
        if cls is None:
            continue
        sch = dict(t["schema"])
        sch.pop("$schema", None)
        try:
            ok = cls(sch).is_valid(t["instance"])
        except Exception as e:  # unresolvable ref etc.
            bad.append({"triple": t, "error": repr(e)})
            continue
        n += 1
        if ok != t["verdict"]:
            bad.append({"triple": t, "jsonschema": ok})
    print(json.dumps({"checked": n, "disagreements": bad[:5], "n_disagreements": len(bad)}))
    return 0


if __name__ == "__main__":
    sys.exit(main(sys.argv[1]))
