#!/bin/bash
# tools/seed_matrix.sh: every seeded change x the quick checks recorded as seeing it (meta.json).
# Writes seeded/<id>/last_run.txt; never commits to the repository.
cd "$(dirname "$0")/.."
for d in seeded/*/; do
  id=$(basename "$d")
  props=$(python3 -c "import json,sys; print(' '.join(json.load(open('seeded/$id/meta.json'))['detected_by_quick_checks']))")
  echo "=== $id -> $props"
  tools/try_seed.sh "$(pwd)/seeded/$id" $props > "seeded/$id/last_run.txt" 2>&1
  grep -E "^== |^tests|^demo|^PATCH" "seeded/$id/last_run.txt"
done
