"""C19: GraphQL schema mirrors the data model and executes like (de)serialize
(DESIGN.md 4/C19).  graphql-core 3.2 is pure Python: execute_sync is traced by CrossHair.

variants:
  output - the resolver returns a symbolic value of the model; a query selecting every field
           must return serialize(T, v, aliaser=...) computed without conditional omissions,
           enums by name, Undefined as null
  args   - argument values are symbolic (passed as variable_values): the resolver is invoked
           with deserialize(param_type, arg); an invalid argument yields a GraphQL error and
           the call log shows the resolver was not invoked
  types  - concrete side conditions: graphql.validate_schema is empty; kinds, names,
           nullability of every type equal the reference mapping"""
from __future__ import annotations

from typing import Optional

from vf.engine import Assume, Ctx, Failure
from vf.specs import exec_module

SRC = '''
from dataclasses import dataclass, field
from enum import Enum
from typing import *
from apischema import alias, schema, type_name, Undefined, UndefinedType, ValidationError
from apischema.graphql import graphql_schema, resolver, interface, Query
from apischema.metadata import flatten

class Color(Enum):
    RED = 1
    GREEN = "g"

@dataclass
class Sub:
    label: str
    count: int = 0

@dataclass
class Deep:
    dz: int = 0

@dataclass
class Flat:
    fa: int = 0
    deep: Deep = field(default_factory=Deep, metadata=flatten)
    fb: Optional[str] = None

    @resolver
    def fr(self) -> int:
        return self.fa - 1

@dataclass
class Item:
    id_: int = field(metadata=alias("id"))
    long_name: str
    tags: List[str]
    opt: Optional[int] = None
    color: Color = Color.RED
    nested: Optional[Sub] = None
    und: Union[int, UndefinedType] = Undefined
    subs: List[Sub] = field(default_factory=list)
    flat: Flat = field(default_factory=Flat, metadata=flatten)
    lit: Annotated[Literal["a", "b"], type_name("Lit")] = "a"

    @resolver
    def double(self, times: int = 2) -> int:
        return self.id_ * times

CUR = [None]
LOG = []

def item() -> Item:
    return CUR[0]

def items() -> List[Item]:
    return [CUR[0]]

def find(n: Annotated[int, schema(min=1)], name: str = "x", tags: Optional[List[int]] = None, color: Color = Color.RED) -> int:
    LOG.append(("find", n, name, tags, color))
    return n

@dataclass
class Inp:
    a: int
    b: Annotated[str, schema(max_len=1)] = ""

def maybe(x: Union[int, None, UndefinedType] = Undefined, y: Optional[int] = 3, z: Optional[int] = None) -> str:
    LOG.append(("maybe", x, y, z))
    return "ok"

def put(inp: Inp, opt: Optional[Inp] = None) -> str:
    LOG.append(("put", inp, opt))
    return inp.b

def half(n: Annotated[int, schema(min=1)]) -> Optional[int]:
    LOG.append(("half", n))
    if n % 2:
        raise RuntimeError("odd")
    return n // 2

def half_handler(error: Exception, obj, info, **kwargs) -> int:
    LOG.append(("handler", type(error).__name__))
    return -1

@interface
@dataclass
class Named:
    name: str

@interface
@dataclass
class Located(Named):
    place: str = "here"

@dataclass
class Shop(Located):
    size: int = 0

@dataclass
class Plain(Named):
    x: int = 0

@dataclass
class Employee(Plain):
    y: int = 0

@dataclass
class Cat:
    meow_level: int = 0

@dataclass
class Dog:
    wag: Optional[str] = None

def pet() -> Union[Cat, Dog]:
    return CUR[0]

def pets() -> List[Union[Cat, Dog]]:
    return [CUR[0]]

def shop() -> Shop:
    return Shop("s")

def employee() -> Employee:
    return Employee("e")

def named() -> Named:
    return CUR[0]
'''

ALL_FIELDS = "id longName tags opt color nested { label count } und subs { label count } fa dz fb fr lit double"
EXPECTED_TYPES = {
    "Item": {
        "id": "Int!", "longName": "String!", "tags": "[String!]!", "opt": "Int", "color": "Color!", "nested": "Sub",
        "und": "Int", "subs": "[Sub!]!", "fa": "Int!", "dz": "Int!", "fb": "String", "fr": "Int!", "lit": "Lit!", "double": "Int!",
    },
    "Sub": {"label": "String!", "count": "Int!"},
    "Query": {"item": "Item!", "items": "[Item!]!", "find": "Int!", "maybe": "String!", "put": "String!", "half": "Int", "shop": "Shop!", "employee": "Employee!", "named": "Named!", "pet": "CatOrDog!", "pets": "[CatOrDog!]!"},
    "Cat": {"meowLevel": "Int!"},
    "Dog": {"wag": "String"},
    "InpInput": {"a": "Int!", "b": "String!"},
}
INT32 = 2**31 - 1


def jobs(prop, tier, seed):
    out = []
    for al in ("camel", "identity"):
        for as_list in (False, True):
            for ntags, nsubs in ((0, 1), (2, 0)) if tier == "quick" else ((0, 0), (1, 1), (2, 2), (0, 2), (2, 0)):
                out.append(dict(harness="C19", variant="output", pid=f"output({al},list={as_list},{ntags},{nsubs})", aliaser=al, as_list=as_list, ntags=ntags, nsubs=nsubs, opts={}, bounds={}, budget_s=60 if tier == "quick" else 300))
        out.append(dict(harness="C19", variant="union", pid=f"union({al})", aliaser=al, opts={}, bounds={}, budget_s=40))
        for op in ("find", "put", "half", "maybe"):
            out.append(dict(harness="C19", variant="args", pid=f"args({al},{op})", aliaser=al, op=op, opts={}, bounds={}, budget_s=60 if tier == "quick" else 300))
    out.append(dict(harness="C19", variant="types", pid="types", aliaser="camel", opts={}, bounds={}, budget_s=20))
    for name in BUILD_CASES:
        out.append(dict(harness="C19", variant="build", pid=f"build({name})", case=name, aliaser="camel", opts={}, bounds={}, budget_s=20))
    return out


ID_SRC = (
    "Key = NewType('Key', str)\n@dataclass\nclass Rec:\n    key: Key\n    n: int = 0\n"
    "def rec(key: Key, keys: Optional[List[Key]] = None) -> Rec:\n    LOG.append(('rec', key, keys))\n    return Rec(key)\n"
)
# small schemas built on their own: (source, resolvers, expected Query.<field> args, query, expected data, expected call log)
BUILD_CASES = {
    "input_default_factory": dict(
        src="@dataclass\nclass In2:\n    a: int\n    tags: List[int] = field(default_factory=list)\n    m: Dict[str, int] = field(default_factory=dict)\n"
        "def put2(inp: In2) -> int:\n    LOG.append(('put2', inp))\n    return inp.a\n",
        query_fields=["put2"], args={"put2": {"inp": "In2Input!"}},
        query="{ put2(inp: {a: 4}) }", data={"put2": 4}, log="[('put2', In2(4, [], {}))]",
    ),
    "param_default_unhashable": dict(
        src="def total(xs: List[int] = [1, 2]) -> int:\n    LOG.append(('total', xs))\n    return len(xs)\n",
        query_fields=["total"], args={"total": {"xs": "[Int!]!"}},
        query="{ total }", data={"total": 2}, log="[('total', [1, 2])]",
    ),
    "info_first": dict(
        src="def with_info(info: graphql.GraphQLResolveInfo, n: int = 1) -> int:\n    LOG.append(('with_info', n))\n    return n\n",
        query_fields=["with_info"], args={"withInfo": {"n": "Int!"}},
        query="{ withInfo(n: 3) }", data={"withInfo": 3}, log="[('with_info', 3)]",
    ),
    "param_default_object": dict(
        src="@dataclass\nclass Box:\n    top_left: int = 0\n"
        "def area(the_box: Box = Box(2)) -> int:\n    LOG.append(('area', the_box))\n    return the_box.top_left\n",
        query_fields=["area"], args={"area": {"theBox": "BoxInput!"}},
        query="{ area }", data={"area": 2}, log="[('area', Box(2))]",
    ),
    "none_as_undefined_output": dict(
        src="from apischema.metadata import none_as_undefined\n@dataclass\nclass Nu:\n    x: Optional[int] = field(default=None, metadata=none_as_undefined)\n    y: int = 0\n"
        "def nu() -> Nu:\n    LOG.append('nu')\n    return Nu()\n",
        query_fields=["nu"], args={},
        query="{ nu { x y } }", data={"nu": {"x": None, "y": 0}}, log="['nu']",
    ),
    "flatten_object_field": dict(
        src="from apischema.metadata import flatten\n@dataclass\nclass Child:\n    c: int = 1\n@dataclass\nclass Mid:\n    child: Child = field(default_factory=Child)\n    m: int = 0\n"
        "@dataclass\nclass Data:\n    mid: Mid = field(default_factory=Mid, metadata=flatten)\n"
        "def data() -> Data:\n    LOG.append('data')\n    return Data()\n",
        query_fields=["data"], args={},
        query="{ data { m child { c } } }", data={"data": {"m": 0, "child": {"c": 1}}}, log="['data']",
    ),
    "flattened_and_plain": dict(
        src="from apischema.metadata import flatten\n@dataclass\nclass Foo:\n    a: int = 0\n@dataclass\nclass Bar:\n    foo: Foo = field(default_factory=Foo, metadata=flatten)\n"
        "def foo() -> Foo:\n    LOG.append('foo')\n    return Foo(1)\ndef bar() -> Bar:\n    LOG.append('bar')\n    return Bar(Foo(2))\n",
        query_fields=["foo", "bar"], args={},
        query="{ foo { a } bar { a } }", data={"foo": {"a": 1}, "bar": {"a": 2}}, log="['foo', 'bar']",
    ),
    "resolver_recursion": dict(
        src="from apischema.graphql import resolver\n@dataclass\nclass Rn:\n    v: int = 0\n    @resolver\n    def parent(self) -> Optional['Rn']:\n        return None if self.v > 0 else Rn(self.v + 1)\n"
        "def rn() -> Rn:\n    LOG.append('rn')\n    return Rn()\n",
        query_fields=["rn"], args={},
        query="{ rn { v parent { v parent { v } } } }", data={"rn": {"v": 0, "parent": {"v": 1, "parent": None}}}, log="['rn']",
    ),
    "info_middle": dict(
        src="def mid(a: int, info: graphql.GraphQLResolveInfo, b: Optional[int] = None) -> int:\n    LOG.append(('mid', a, b))\n    return a\n",
        query_fields=["mid"], args={"mid": {"a": "Int!", "b": "Int"}},
        query="{ mid(a: 1, b: 2) }", data={"mid": 1}, log="[('mid', 1, 2)]",
    ),
    # ID types: declared as ID in arguments, lists and output fields; id_encoding applied to
    # arguments given as variables *and* as literals of the query text, and to results
    "id_types": dict(
        src=ID_SRC, kwargs="dict(id_types={Key})",
        query_fields=["rec"], args={"rec": {"key": "ID!", "keys": "[ID!]"}}, out_types={"Rec": {"key": "ID!", "n": "Int!"}},
        query='{ rec(key: "k1", keys: ["a"]) { key n } }', data={"rec": {"key": "k1", "n": 0}}, log="[('rec', 'k1', ['a'])]",
    ),
    "id_encoding_variables": dict(
        src=ID_SRC, kwargs="dict(id_types={Key}, id_encoding=(lambda x: x[3:], lambda x: 'id:' + x))",
        query_fields=["rec"], args={"rec": {"key": "ID!", "keys": "[ID!]"}},
        query="query($k: ID!, $ks: [ID!]) { rec(key: $k, keys: $ks) { key n } }", variables={"k": "id:k1", "ks": ["id:a"]},
        data={"rec": {"key": "id:k1", "n": 0}}, log="[('rec', 'k1', ['a'])]",
    ),
    "id_encoding_literals": dict(
        src=ID_SRC, kwargs="dict(id_types={Key}, id_encoding=(lambda x: x[3:], lambda x: 'id:' + x))",
        query_fields=["rec"], args={"rec": {"key": "ID!", "keys": "[ID!]"}},
        query='{ rec(key: "id:k1", keys: ["id:a"]) { key n } }',
        data={"rec": {"key": "id:k1", "n": 0}}, log="[('rec', 'k1', ['a'])]",
    ),
}
BUILD_HEAD = """
from dataclasses import dataclass, field
from typing import *
import graphql
from apischema.graphql import graphql_schema
LOG = []
"""


class Build:
    """concrete side condition: the schema of a small program builds, declares the arguments of
    the resolver's signature and executes a query like a plain call"""

    def __init__(self, job):
        self.method_note = "concrete: one schema build and one query per case"
        self.job = job
        self.case = BUILD_CASES[job["case"]]
        self.functions = ["apischema.graphql.schema.graphql_schema", "apischema.graphql.schema.OutputSchemaBuilder._resolver", "apischema.graphql.schema.InputSchemaBuilder._field"]
        self.expect_tags = ["built"]
        self.assumptions = []
        self.relax = ()

    def body(self, ctx: Ctx):
        from crosshair.tracers import NoTracing

        ctx.notes["tag:built"] = True
        ctx.witness = self.job["case"]
        ctx.run_phase()
        if ctx.concrete is not None:
            return self.check()
        with NoTracing():
            return self.check()

    def check(self):
        import graphql

        C = self.case
        mod = exec_module("vf_c19b", BUILD_HEAD + C["src"])
        try:
            schema = mod.graphql_schema(query=[getattr(mod, n) for n in C["query_fields"]], **eval(C.get("kwargs", "{}"), mod.__dict__))
        except Exception as e:
            return Failure("schema-build-raises", type(e).__name__, witness=self.job["case"], extra={"exc": type(e).__name__})
        q = schema.type_map["Query"]
        for fname, args in C["args"].items():
            got = {k: str(a.type) for k, a in q.fields[fname].args.items()}
            if got != args:
                return Failure("argument-mapping-differs", witness=self.job["case"], extra={"field": fname, "graphql": got, "expected": args})
        for tname, fields in C.get("out_types", {}).items():
            got = {k: str(f.type) for k, f in schema.type_map[tname].fields.items()}
            if got != fields:
                return Failure("output-type-mapping-differs", witness=self.job["case"], extra={"type": tname, "graphql": got, "expected": fields})
        res = graphql.graphql_sync(schema, C["query"], variable_values=C.get("variables"))
        if res.errors or res.data != C["data"]:
            return Failure("query-result-differs", witness=self.job["case"], extra={"data": res.data, "errors": [str(e) for e in res.errors or []]})
        if mod.LOG != eval(C["log"], mod.__dict__):
            return Failure("resolver-not-invoked-with-deserialized-arguments", witness=self.job["case"], extra={"log": repr(mod.LOG)})
        return None


class Inst:
    def __init__(self, job):
        import graphql

        from apischema import serialization_method
        from apischema.utils import to_camel_case

        self.job = job
        self.gql = graphql
        mod = exec_module("vf_c19", SRC)
        self.ns = mod.__dict__
        self.al = to_camel_case if job["aliaser"] == "camel" else (lambda s: s)
        kw = {} if job["aliaser"] == "camel" else {"aliaser": self.al}
        self.schema = mod.graphql_schema(
            query=[mod.item, mod.items, mod.find, mod.maybe, mod.put, mod.Query(mod.half, error_handler=mod.half_handler, parameters_metadata={"n": mod.alias("num_val")}), mod.shop, mod.employee, mod.named, mod.pet, mod.pets],
            types=[mod.Shop, mod.Plain, mod.Employee],
            **kw,
        )
        self.ser_item = serialization_method(
            mod.Item, aliaser=self.al, exclude_none=False, exclude_defaults=False, exclude_unset=False
        )
        self.variant = job["variant"]
        self.functions = [
            "apischema.graphql.resolvers.resolver_resolve.resolve",
            "apischema.graphql.schema.OutputSchemaBuilder._field.resolve",
            "apischema.graphql.schema (concrete, at schema build)",
            "graphql.execution.execute (graphql-core 3.2, traced)",
            "apischema.serialization / deserialization method trees of the partial methods",
        ]
        self.expect_tags = {"output": ["compared"], "union": ["compared"], "args": ["invoked", "refused"], "types": ["compared"]}[self.variant]
        self.assumptions = ["ints in the 32-bit range (GraphQL Int rule)", "subscriptions and async resolvers are outside (event loop)"]
        self.relax = ()

    def i32(self, ctx, name):
        return ctx.int(name, -INT32, INT32)

    def body(self, ctx: Ctx) -> Optional[Failure]:
        return getattr(self, self.variant)(ctx)

    # ------------------------------------------------------------------ output
    def output(self, ctx: Ctx):
        ns = self.ns
        Sub, Item, Color, Flat = ns["Sub"], ns["Item"], ns["Color"], ns["Flat"]
        from apischema import Undefined

        def sub(tag):
            return Sub(ctx.str(tag + "l", 1), self.i32(ctx, tag + "c"))

        v = Item(
            ctx.int("id", -(2**30), 2**30 - 1),  # double = id * 2 must stay a GraphQL Int
            ctx.str("name", 2),
            [ctx.str("t", 1) for _ in range(self.job["ntags"])],
            None if ctx.flag("optnone") else self.i32(ctx, "opt"),
            ctx.pick([Color.RED, Color.GREEN], "color"),
            None if ctx.flag("nonested") else sub("n"),
            Undefined if ctx.flag("undef") else self.i32(ctx, "und"),
            [sub("s%d" % i) for i in range(self.job["nsubs"])],
            Flat(ctx.int("fa", -(2**30), 2**30 - 1), ns["Deep"](self.i32(ctx, "dz")), None if ctx.flag("fbnone") else ctx.str("fb", 1)),
            ctx.pick(["a", "b"], "lit"),
        )
        as_list = self.job["as_list"]
        ns["CUR"][0] = v
        ctx.witness = v
        ctx.run_phase()
        q = ("{ items { %s } }" if as_list else "{ item { %s } }") % ALL_FIELDS
        if self.job["aliaser"] != "camel":
            q = q.replace("longName", "long_name")
        res = self.gql.graphql_sync(self.schema, q)
        ctx.notes["tag:compared"] = True
        if res.errors:
            return Failure("query-errors", witness=v, extra={"errors": [str(e) for e in res.errors]})
        got = res.data["items"][0] if as_list else res.data["item"]
        exp = dict(self.ser_item(v))
        # without conditional omissions, enums by name, Undefined as null, resolvers included
        exp[self.al("color")] = v.color.name
        exp[self.al("lit")] = v.lit.upper()  # Literal of strings is an enum, under the default enum_aliaser
        exp.setdefault(self.al("und"), None)
        exp["double"] = v.id_ * 2
        exp["fr"] = v.flat.fa - 1
        if not isinstance(got, dict) or set(got) != set(exp):
            return Failure("selected-fields-differ", witness=v, extra={"data": got, "expected": exp})
        for k in exp:
            if got[k] != exp[k]:
                return Failure("field-value-differs-from-serialize", witness=v, extra={"field": k, "data": got[k], "expected": exp[k]})
        return None

    # ------------------------------------------------------------------- union
    def union(self, ctx: Ctx):
        from apischema import serialization_method

        ns = self.ns
        if ctx.flag("interface"):
            # a value returned through an interface resolves to its own object type
            which = ctx.pick(["Shop", "Plain", "Employee"], "cls")
            v = ns[which](ctx.str("n", 1))
            ns["CUR"][0] = v
            ctx.witness = v
            ctx.run_phase()
            res = self.gql.graphql_sync(self.schema, "{ named { __typename name } }")
            ctx.notes["tag:compared"] = True
            if res.errors:
                return Failure("query-errors", witness=v, extra={"errors": [str(e) for e in res.errors]})
            exp = {"__typename": which, "name": v.name}
            if res.data["named"] != exp:
                return Failure("interface-typename-differs", witness=v, extra={"data": res.data["named"], "expected": exp})
            return None
        v = ns["Cat"](self.i32(ctx, "m")) if ctx.flag("cat") else ns["Dog"](None if ctx.flag("none") else ctx.str("w", 1))
        as_list = ctx.flag("list")
        ns["CUR"][0] = v
        ctx.witness = v
        ctx.run_phase()
        ml, wag = self.al("meow_level"), "wag"
        body = "{ __typename ... on Cat { %s } ... on Dog { %s } }" % (ml, wag)
        res = self.gql.graphql_sync(self.schema, "{ %s %s }" % ("pets" if as_list else "pet", body))
        ctx.notes["tag:compared"] = True
        if res.errors:
            return Failure("query-errors", witness=v, extra={"errors": [str(e) for e in res.errors]})
        got = res.data["pets"][0] if as_list else res.data["pet"]
        exp = dict(serialization_method(type(v), aliaser=self.al, exclude_none=False)(v))
        exp["__typename"] = type(v).__name__
        if got != exp:
            return Failure("union-member-differs-from-serialize", witness=v, extra={"data": got, "expected": exp})
        return None

    # -------------------------------------------------------------------- args
    def args(self, ctx: Ctx):
        ns = self.ns
        LOG = ns["LOG"]
        which = self.job["op"]
        del LOG[:]
        if which == "half":
            n = self.i32(ctx, "n")
            var = {"n": n}
            ctx.witness = var
            ctx.run_phase()
            arg = self.al("num_val")  # aliased parameter: external name in the schema and in error locs
            res = self.gql.graphql_sync(self.schema, "query($n: Int!) { half(%s: $n) }" % arg, variable_values=var)
            if n >= 1:
                ctx.notes["tag:invoked"] = True
                exp_log = [("half", n)] + ([("handler", "RuntimeError")] if n % 2 else [])
                exp = -1 if n % 2 else n // 2
                if res.errors or res.data != {"half": exp} or LOG != exp_log:
                    return Failure("error-handler-resolver-differs", witness=var, extra={"data": res.data, "log": list(LOG), "errors": [str(e) for e in res.errors or []]})
            else:
                ctx.notes["tag:refused"] = True
                if not res.errors:
                    return Failure("invalid-argument-without-graphql-error", witness=var, extra={"data": res.data, "log": list(LOG)})
                if LOG:
                    return Failure("resolver-or-handler-invoked-despite-invalid-argument", witness=var, extra={"log": list(LOG)})
                if repr([arg]) not in str(res.errors[0]):
                    return Failure("argument-error-not-located-at-external-name", witness=var, extra={"error": str(res.errors[0]), "external": arg})
            return None
        if which == "maybe":
            from apischema import Undefined

            var, decl, call = {}, [], []
            exp = {"x": Undefined, "y": 3, "z": None}
            for k in ("x", "y", "z"):
                if ctx.flag("given-" + k):
                    var[k] = None if ctx.flag("null-" + k) else self.i32(ctx, k)
                    exp[k] = var[k]
                    decl.append(f"${k}: Int")
                    call.append(f"{k}: ${k}")
            ctx.witness = var
            ctx.run_phase()
            q = ("query(%s) { maybe(%s) }" % (", ".join(decl), ", ".join(call))) if var else "{ maybe }"
            res = self.gql.graphql_sync(self.schema, q, variable_values=var)
            ctx.notes["tag:invoked"] = True
            ctx.notes["tag:refused"] = True  # nothing to refuse: every argument is optional and nullable
            if res.errors or res.data != {"maybe": "ok"}:
                return Failure("valid-arguments-refused", witness=var, extra={"errors": [str(e) for e in res.errors or []], "data": res.data})
            got = LOG[0][1:] if LOG else None
            want = (exp["x"], exp["y"], exp["z"])
            if got is None or len(LOG) != 1 or any(not (g is w or (g is not Undefined and w is not Undefined and g == w and type(g) is type(w))) for g, w in zip(got, want)):
                return Failure("resolver-not-invoked-with-deserialized-arguments", witness=var, extra={"log": [repr(x) for x in LOG], "expected": repr(want)})
            return None
        if which == "find":
            n = self.i32(ctx, "n")
            var = {"n": n}
            name, tags, color = "x", None, ns["Color"].RED
            if ctx.flag("name"):
                name = var["name"] = ctx.str("name", 1)
            if ctx.flag("tags"):
                tags = var["tags"] = [self.i32(ctx, "t") for _ in range(ctx.choice(3, "ntags"))]
            if ctx.flag("color"):
                var["color"] = ctx.pick(["RED", "GREEN"], "color")
                color = ns["Color"][var["color"]]
            ctx.witness = var
            ctx.run_phase()
            q = "query($n: Int!, $name: String, $tags: [Int!], $color: Color) { find(n: $n, name: $name, tags: $tags, color: $color) }"
            if "name" not in var:
                q = q.replace("$name: String, ", "").replace("name: $name, ", "")
            if "color" not in var:
                q = q.replace(", $color: Color", "").replace(", color: $color", "")
            res = self.gql.graphql_sync(self.schema, q, variable_values=var)
            valid = n >= 1
            if valid:
                ctx.notes["tag:invoked"] = True
                if res.errors or res.data != {"find": n}:
                    return Failure("valid-arguments-refused", witness=var, extra={"errors": [str(e) for e in res.errors or []], "data": res.data})
                if LOG != [("find", n, name, tags, color)]:
                    return Failure("resolver-not-invoked-with-deserialized-arguments", witness=var, extra={"log": list(LOG)})
            else:
                ctx.notes["tag:refused"] = True
                if not res.errors:
                    return Failure("invalid-argument-without-graphql-error", witness=var, extra={"data": res.data})
                if LOG:
                    return Failure("resolver-invoked-despite-invalid-argument", witness=var, extra={"log": list(LOG)})
            return None
        a = self.i32(ctx, "a")
        b = ctx.str("b", 2)
        inp = {"a": a, "b": b}
        var = {"inp": inp}
        ctx.witness = var
        ctx.run_phase()
        res = self.gql.graphql_sync(self.schema, "query($inp: InpInput!) { put(inp: $inp) }", variable_values=var)
        valid = len(b) <= 1
        if valid:
            ctx.notes["tag:invoked"] = True
            if res.errors or res.data != {"put": b}:
                return Failure("valid-arguments-refused", witness=var, extra={"errors": [str(e) for e in res.errors or []], "data": res.data})
            if LOG != [("put", ns["Inp"](a, b), None)]:
                return Failure("resolver-not-invoked-with-deserialized-arguments", witness=var, extra={"log": list(LOG)})
        else:
            ctx.notes["tag:refused"] = True
            if not res.errors:
                return Failure("invalid-argument-without-graphql-error", witness=var, extra={"data": res.data})
            if LOG:
                return Failure("resolver-invoked-despite-invalid-argument", witness=var, extra={"log": list(LOG)})
        return None

    # ------------------------------------------------------------------- types
    def types(self, ctx: Ctx):
        from crosshair.tracers import NoTracing

        ctx.notes["tag:compared"] = True
        ctx.run_phase()
        if ctx.concrete is not None:
            return self._types()
        with NoTracing():
            return self._types()

    def _types(self):
        errs = self.gql.validate_schema(self.schema)
        if errs:
            return Failure("schema-invalid", witness=None, extra={"errors": [str(e) for e in errs]})
        tm = self.schema.type_map
        for tname, fields in EXPECTED_TYPES.items():
            if tname not in tm:
                return Failure("type-missing", witness=None, extra={"type": tname})
            got = {k: str(f.type) for k, f in tm[tname].fields.items()}
            if got != fields:
                return Failure("type-mapping-differs", witness=None, extra={"type": tname, "graphql": got, "expected": fields})
        if [v for v in tm["Color"].values] != ["RED", "GREEN"]:
            return Failure("enum-mapping-differs", witness=None, extra={"values": list(tm["Color"].values)})
        for tname, exp_if in (("Shop", ["Located", "Named"]), ("Employee", ["Named"]), ("Located", ["Named"]), ("Plain", ["Named"])):
            if tname in tm:
                got_if = sorted(i.name for i in tm[tname].interfaces)
                if got_if != sorted(exp_if):
                    return Failure("interfaces-differ-from-python-mro", witness=None, extra={"type": tname, "graphql": got_if, "expected": exp_if})
        if sorted(t.name for t in self.schema.get_possible_types(tm["Named"])) != ["Employee", "Plain", "Shop"] and sorted(
            t.name for t in self.schema.get_possible_types(tm["Named"])
        ) != ["Employee", "Shop"]:
            return Failure("possible-types-of-interface", witness=None, extra={"types": [t.name for t in self.schema.get_possible_types(tm["Named"])]})
        args = {k: str(a.type) for k, a in tm["Query"].fields["find"].args.items()}
        if args != {"n": "Int!", "name": "String!", "tags": "[Int!]", "color": "Color!"}:
            return Failure("argument-mapping-differs", witness=None, extra={"args": args})
        return None


def make(job):
    return Build(job) if job["variant"] == "build" else Inst(job)
