"""Check driver: jobs -> pool of worker processes -> replay -> known findings -> evidence.

  python -m vf.run C01 --tier quick|thorough [--only SUBSTR] [--procs N]
  python -m vf.run --replay /verif/replays/C01/<hash>.json

Exit codes: 0 property held on everything explored (known findings listed); 1 VIOLATION;
3 harness error (non-reproducing counterexample, vacuous job, worker crash).
"""
from __future__ import annotations

import argparse
import hashlib
import importlib
import json
import math
import multiprocessing as mp
import os
import subprocess
import sys
import time
import traceback

ROOT = os.path.dirname(os.path.dirname(os.path.abspath(__file__)))
PROPS = {
    "C01": "vf.harness.deser_e2e",
    "C02": "vf.harness.deser_e2e",
    "C03": "vf.harness.C03",
    "C04": "vf.harness.C04",
    "C05": "vf.harness.C05",
    "C06": "vf.harness.C06",
    "C07": "vf.harness.C07",
    "C08": "vf.harness.C08",
    "C09": "vf.harness.C09",
    "C10": "vf.harness.C10",
    "C11": "vf.harness.C11",
    "C12": "vf.harness.C12",
    "C13": "vf.harness.C13",
    "C15": "vf.harness.C15",
    "C16": "vf.harness.C16",
    "C18": "vf.harness.C18",
    "C19": "vf.harness.C19",
    "C20": "vf.harness.C20",
    "C14": "vf.harness.C14",
}


def harness_module(prop):
    return importlib.import_module(PROPS.get(prop, f"vf.harness.{prop}"))


# ------------------------------------------------------------------ json-safe encoding
def enc(x):
    if isinstance(x, float):
        if math.isnan(x) or math.isinf(x):
            return {"__float__": repr(x)}
        return x
    if isinstance(x, (bool, int, str)) or x is None:
        if type(x) not in (bool, int, str, type(None)):
            return {"__repr__": repr(x)}
        if isinstance(x, int) and not isinstance(x, bool) and abs(x) > 2**62:
            return {"__int__": str(x)}
        return x
    if isinstance(x, (list, tuple)):
        return [enc(v) for v in x]
    if isinstance(x, dict):
        return {str(k): enc(v) for k, v in x.items()}
    return {"__repr__": repr(x)[:300]}


def dec_inputs(x):
    if isinstance(x, dict):
        if "__float__" in x:
            return float(x["__float__"])
        if "__int__" in x:
            return int(x["__int__"])
        return {k: dec_inputs(v) for k, v in x.items()}
    if isinstance(x, list):
        return [dec_inputs(v) for v in x]
    return x


# ------------------------------------------------------------------------------ worker
def worker(job):
    t0 = time.time()
    out = {"job": job, "status": "error", "failures": []}
    try:
        from vf.patches import install_any_method_stub, install_proxy_aliases

        install_proxy_aliases()
        install_any_method_stub()
        from vf.engine import explore, run_concrete

        H = harness_module(job["harness"])
        try:
            inst = H.make(job)
        except Exception as e:
            if str(job.get("pid", "")).startswith("rnd:"):
                # a randomly drawn program the library refuses to compile is skipped
                out.update(status="inconclusive", error=f"random program not compilable: {type(e).__name__}", paths=0)
                out["wall_s"] = round(time.time() - t0, 2)
                return out
            raise
        res = explore(
            inst.body,
            budget_s=job.get("budget_s", 30),
            path_timeout=job.get("path_timeout", 8.0),
            max_paths=job.get("max_paths", 10**9),
            want_samples=getattr(inst, "want_samples", 2),
        )
        out.update(res.as_dict())
        out["functions"] = getattr(inst, "functions", [])
        out["assumptions"] = getattr(inst, "assumptions", [])
        out["method_note"] = getattr(inst, "method_note", None)
        out["src"] = getattr(getattr(inst, "prog", None), "src", None)
        missing = [t for t in getattr(inst, "expect_tags", []) if not res.tags.get(t)]
        out["vacuous_tags"] = missing if res.exhausted else []
        # concrete replay of every counterexample, outside CrossHair, on the real code
        inst2 = H.make(job)
        for f in out["failures"]:
            try:
                fail2, _ = run_concrete(inst2.body, f["inputs"])
                f["reproduced"] = fail2 is not None and fail2.kind == f["kind"]
                if fail2 is not None and not f["reproduced"]:
                    f["replay_kind"] = fail2.kind
            except Exception as e:  # replay itself crashed: not a reproduction
                f["reproduced"] = False
                f["replay_error"] = f"{type(e).__name__}: {e}"
        if hasattr(inst2, "js_triples"):
            for s_ in out["samples"]:  # concrete re-run of sampled confirmed paths
                try:
                    run_concrete(inst2.body, s_["inputs"])
                except Exception:
                    pass
            triples = inst2.js_triples(
                [s_["witness"] for s_ in out["samples"]] + [f["witness"] for f in out["failures"][:5]]
            )
            out["js_triples"] = []
            for t in triples:  # through JSON: what the independent validator is given (and picklable)
                try:
                    out["js_triples"].append(json.loads(json.dumps(t)))
                except (TypeError, ValueError):
                    pass
        if res.failures:
            out["status"] = "violated"
        elif res.exhausted:
            out["status"] = "discharged"
        else:
            out["status"] = "inconclusive"
    except BaseException as e:  # noqa
        out["status"] = "error"
        out["error"] = f"{type(e).__name__}: {e}\n" + traceback.format_exc()[-1500:]
    out["wall_s"] = round(time.time() - t0, 2)
    return out


def _child(job, conn):
    try:
        import pickle

        res = worker(job)
        try:
            import io

            class Strict(pickle.Pickler):
                def reducer_override(self, obj):
                    mod = getattr(obj if isinstance(obj, type) else type(obj), "__module__", "") or ""
                    if mod.startswith(("vfprog", "vf_c", "vf_prog")):
                        raise pickle.PicklingError(f"object of generated module {mod}: {type(obj).__name__}")
                    return NotImplemented

            Strict(io.BytesIO()).dump(res)
        except Exception as e:  # objects of a generated module must not cross the pipe
            res = {"job": job, "status": "error", "failures": [], "error": f"unpicklable result: {type(e).__name__}: {e}"}
        conn.send(res)
    except BaseException as e:  # noqa
        try:
            conn.send({"job": job, "status": "error", "failures": [], "error": repr(e)})
        except Exception:
            pass
    finally:
        conn.close()


def run_jobs(jobs, order, procs):
    """one forked process per job (pristine registries / caches), hard wall-clock kill"""
    ctx = mp.get_context("fork")
    results = [None] * len(jobs)
    pending = list(order)
    running = {}  # idx -> (proc, conn, deadline)
    while pending or running:
        while pending and len(running) < procs:
            i = pending.pop(0)
            parent, child = ctx.Pipe(duplex=False)
            p = ctx.Process(target=_child, args=(jobs[i], child), daemon=True)
            p.start()
            child.close()
            hard = jobs[i].get("budget_s", 30) * 3 + 90
            running[i] = (p, parent, time.time() + hard)
        done = []
        for i, (p, conn, deadline) in running.items():
            if conn.poll(0):
                try:
                    results[i] = conn.recv()
                except EOFError:
                    results[i] = {"job": jobs[i], "status": "error", "failures": [], "error": "worker died"}
                done.append(i)
            elif not p.is_alive():
                if conn.poll(0.5):  # the result may have been written just before exit
                    try:
                        results[i] = conn.recv()
                    except EOFError:
                        results[i] = {"job": jobs[i], "status": "error", "failures": [], "error": "worker died"}
                else:
                    results[i] = {"job": jobs[i], "status": "error", "failures": [], "error": f"worker exit {p.exitcode}"}
                done.append(i)
            elif time.time() > deadline:
                p.kill()
                results[i] = {"job": jobs[i], "status": "inconclusive", "failures": [], "error": "hard timeout", "paths": 0}
                done.append(i)
        for i in done:
            p, conn, _ = running.pop(i)
            p.join(timeout=5)
            conn.close()
        if not done:
            time.sleep(0.02)
    return results


def replay_file(path) -> int:
    rec = json.load(open(path))
    job = rec["job"]
    from vf.engine import run_concrete

    H = harness_module(job["harness"])
    inst = H.make(job)
    fail, ctx = run_concrete(inst.body, dec_inputs(rec["inputs"]))
    if fail is None:
        print(f"REPLAY property={rec['property']} not reproduced")
        return 0
    print(f"REPLAY property={rec['property']} reproduced kind={fail.kind}")
    print("  program:", job.get("pid"), "opts:", job.get("opts"))
    print("  witness:", repr(fail.witness)[:500])
    for k, v in fail.extra.items():
        print(f"  {k}: {repr(v)[:500]}")
    return 1


# ------------------------------------------------------------------------------- main
def main(argv=None):
    ap = argparse.ArgumentParser()
    ap.add_argument("prop", nargs="?")
    ap.add_argument("--tier", default=os.environ.get("VERIF_TIER", "quick"))
    ap.add_argument("--replay")
    ap.add_argument("--only")
    ap.add_argument("--procs", type=int, default=int(os.environ.get("VF_PROCS", "16")))
    ap.add_argument("--budget-scale", type=float, default=float(os.environ.get("VF_BUDGET_SCALE", "1")))
    ap.add_argument("--no-evidence", action="store_true")
    args = ap.parse_args(argv)
    if args.replay:
        return replay_file(args.replay)
    prop, tier = args.prop, args.tier
    seed = int(os.environ.get("VERIF_SEED", "0"))
    t0 = time.time()
    H = harness_module(prop)
    jobs = H.jobs(prop, tier, seed)
    if args.only:
        jobs = [j for j in jobs if args.only in json.dumps(j)]
    for j in jobs:
        j["budget_s"] = j.get("budget_s", 30) * args.budget_scale
    # size a tier by total wall time: the per-job CPU budgets are scaled down so that the
    # whole run fits the target (an exhausted job stops earlier; an unfinished one is
    # reported inconclusive, never as a pass)
    target = float(os.environ.get("VF_WALL_TARGET_S", "1200" if tier == "quick" else "2700"))
    total = sum(j["budget_s"] for j in jobs) / max(1, args.procs)
    if total > target:
        k = target / total
        for j in jobs:
            j["budget_s"] = max(8.0, j["budget_s"] * k)
    # longest first for better packing
    order = sorted(range(len(jobs)), key=lambda i: -jobs[i].get("budget_s", 30))
    results = run_jobs(jobs, order, args.procs)
    from vf.report import report

    return report(prop, tier, seed, results, time.time() - t0, write=not args.no_evidence)


if __name__ == "__main__":
    sys.exit(main())
