"""C01 / C02: end-to-end differential harness of deserialization against the reference
semantics (DESIGN.md section 4, C01 and C02).  One symbolic datum per path; the compiled
method tree of /repo's current source is executed on it by CrossHair."""
from __future__ import annotations

from typing import Optional

from vf import pools
from vf.engine import Ctx, Failure
from vf.harness.common import api_kwargs, bounds_of, method_classes, program_of, ref_opts, self_of
from vf.oracle.deser import RefDeser, classify, message_kinds
from vf.specs import walk
from vf.sym import Gen, same

OBJ_OPTS = [
    {},
    {"additional_properties": True},
    {"fall_back_on_default": True},
    {"aliaser": "prefix"},
    {"aliaser": "camel"},
]


def accepts_all(s) -> bool:
    if s.k == "any":
        return not s.opt("c")
    if s.k in ("opt", "union"):
        return any(accepts_all(a) for a in s.a)
    return False


def has_obj(spec) -> bool:
    return any(s.k == "obj" for s in walk(spec))


def n_positions(spec) -> int:
    return sum(1 for _ in walk(spec))


# per-call `schema=` / `validators=` arguments (C01 quantifier): program -> (constraints, sentinel expr)
CALL_ARGS = {
    "int": ((("min", 0),), "7"),
    "float": ((("exc_max", 5),), "2.0"),
    "str_len": ((("max_len", 1),), "'x'"),
    "list(int)": ((("max_items", 1),), "[7]"),
    "opt(int)": ((("max", 3),), "1"),
    "map(int)": ((("max_props", 1),), "{'k0': 7}"),
    "S2": ((("min_props", 2),), "S2(7, 'x')"),
    "nt": ((("max", 9),), "7"),
}


def call_validator_src(sentinel):
    return (
        "def call_validator(v):\n"
        f"    if v == {sentinel}:\n"
        "        raise ValidationError('call validator')\n"
    )


def jobs(prop: str, tier: str, seed: int):
    out = []
    if prop == "C02":
        from vf.harness import C02mod

        out.extend(C02mod.jobs(tier))
    for pid, (cs, _) in CALL_ARGS.items():
        b = dict(depth=2, width=2, strlen=2, budget=1)
        for o in ({"call_schema": [list(c) for c in cs]}, {"call_validators": True}, {"call_schema": [list(c) for c in cs], "call_validators": True}):
            out.append(dict(harness=prop, pool="data", pid=pid, opts=o, bounds=b, budget_s=30 if tier == "quick" else 120))
    data_ids = pools.ids("data", tier)
    todo = [("data", pid) for pid in data_ids + pools.random_ids(seed, 8 if tier == "quick" else 60)]
    todo += [("union", pid) for pid in pools.ids("union", tier) if pid not in data_ids and not pid.startswith("tagged")]
    for pool, pid in todo:
        spec, _ = pools.get(pool, pid)
        optsets = [{}]
        if has_obj(spec):
            optsets = OBJ_OPTS if tier == "thorough" else OBJ_OPTS[:4]
        if any(s.k == "obj" and s.opt("kind") == "typeddict" for s in walk(spec)):
            # undeclared keys are kept: they meet the Python names of the declared ones
            optsets = optsets + [{"aliaser": "prefix", "additional_properties": True}]
        if pid.startswith("rnd:"):
            optsets = [{}]
        big = n_positions(spec) >= 8
        for o in optsets:
            if tier == "quick":
                b = dict(depth=2, width=2, strlen=2, budget=1 if big else 2)
                budget_s = 70 if n_positions(spec) >= 5 else 25
            else:
                b = dict(depth=3, width=2 if big else 3, strlen=3, budget=2 if big else 3)
                budget_s = 120
            out.append(
                dict(harness=prop, pool=pool, pid=pid, opts=o, bounds=b, budget_s=budget_s)
            )
    return out


def errors_match(real, ref) -> bool:
    """multisets of (loc, kind) equal, except that at a literal position the code may
    report an ill-typed datum with one type message per literal type instead of oneOf"""
    by_loc = {}
    for loc, k in real:
        by_loc.setdefault(loc, [[], []])[0].append(k)
    for loc, k in ref:
        by_loc.setdefault(loc, [[], []])[1].append(k)
    for loc, (r, f) in by_loc.items():
        r, f = sorted(r), sorted(f)
        if r == f:
            continue
        d = f.count("oneOf") - r.count("oneOf")
        if d > 0:
            r2 = [k for k in r if k not in ("oneOf", "type")]
            f2 = [k for k in f if k not in ("oneOf", "type")]
            if r2 == f2 and r.count("type") >= f.count("type") + d:
                continue
        return False
    return True


def ordered(errors) -> bool:
    """own messages first, then children by sorted key (checked on the flat list: the loc
    sequence must be the pre-order of a tree whose children are visited in sorted order)"""

    def key(loc):
        return [(0, k) if isinstance(k, int) else (1, k) for k in loc]

    locs = [tuple(e["loc"]) for e in errors]
    # pre-order with sorted children <=> for consecutive entries a, b: a is a prefix of b
    # or at the first differing index a[i] < b[i]; own messages of a node come before its
    # children, i.e. a shorter prefix never follows its extension
    for a, b in zip(locs, locs[1:]):
        n = min(len(a), len(b))
        i = 0
        while i < n and a[i] == b[i]:
            i += 1
        if i == n:
            if len(a) > len(b):
                return False
            continue
        x, y = a[i], b[i]
        if type(x) is not type(y):
            return False
        if not x < y:
            return False
    return True


class Inst:
    def __init__(self, job):
        from apischema import ValidationError, deserialization_method

        self.job = job
        self.prop = job["harness"]
        self.prog = program_of(job)
        self.kw = api_kwargs(job)
        o = job.get("opts", {})
        self.call_cs = tuple(tuple(c) for c in o.get("call_schema", ()))
        self.sentinel = None
        if self.call_cs:
            from apischema import schema as _schema

            self.kw["schema"] = _schema(**dict(self.call_cs))
        if o.get("call_validators"):
            ns = self.prog.module.__dict__
            exec(call_validator_src(CALL_ARGS[job["pid"]][1]), ns)
            self.kw["validators"] = [ns["call_validator"]]
            self.sentinel = eval(CALL_ARGS[job["pid"]][1], ns)
        self.method = deserialization_method(self.prog.tp, **self.kw)
        self.opts = ref_opts(job)
        self.bounds = bounds_of(job)
        self.table = message_kinds(self.prog)
        self.table["call validator"] = "validator"
        if self.call_cs:
            from apischema import settings
            from vf.specs import CONSTRAINT_KW

            for k, v in self.call_cs:
                tmpl = getattr(settings.errors, CONSTRAINT_KW[k])
                if isinstance(tmpl, str):
                    self.table[tmpl.format(v)] = "c:" + k
        self.VE = ValidationError
        self.functions = method_classes(self_of(self.method)) + [
            "apischema.deserialization.methods.validate_constraints",
            "apischema.deserialization.methods.set_child_error",
            "apischema.json_schema.types.bad_type",
            "apischema.validation.errors.ValidationError._errors",
        ]
        self.expect_tags = ["accepted"] + ([] if accepts_all(self.prog.spec) else ["rejected"])
        self.assumptions = []
        self.relax = ()

    def body(self, ctx: Ctx) -> Optional[Failure]:
        g = Gen(ctx, self.prog, self.bounds, self.opts)
        d = g.json(self.prog.spec)
        ctx.witness = d
        ctx.run_phase()
        real_errs = None
        r = None
        try:
            r = self.method(d)
        except self.VE as e:
            real_errs = e.errors
        except Exception as e:  # a crash is C03's subject, not C01/C02's
            ctx.notes["tag:crash"] = True
            return None
        errs, v = RefDeser(self.prog, self.opts, self.relax).run(d, extra_cs=self.call_cs)
        if not errs and self.sentinel is not None and same(v, self.sentinel):
            errs = [((), "validator")]  # per-call validators run on the deserialized value
        accepted = real_errs is None
        ctx.notes["tag:accepted" if accepted else "tag:rejected"] = True
        if self.prop == "C01":
            if accepted and errs:
                return Failure("accepts-nonconforming", witness=d, extra={"ref_errors": errs, "result": r})
            if not accepted and not errs:
                return Failure("rejects-conforming", witness=d, extra={"real_errors": real_errs})
            if accepted and not same(r, v):
                return Failure("wrong-image", witness=d, extra={"result": r, "expected": v})
            return None
        # C02
        if accepted or not errs:
            return None  # verdict disagreements are C01's subject
        real = [(tuple(e["loc"]), classify(e["err"], self.table)) for e in real_errs]
        if not errors_match(real, errs):
            return Failure("wrong-errors", witness=d, extra={"real": real_errs, "ref": errs})
        if not ordered(real_errs):
            return Failure("error-order", witness=d, extra={"real": real_errs})
        try:
            self.method(d)
            return Failure("nondeterministic", witness=d)
        except self.VE as e2:
            if e2.errors != real_errs:
                return Failure("nondeterministic", witness=d, extra={"first": real_errs, "second": e2.errors})
        return None


def make(job):
    if job.get("variant") == "modular":
        from vf.harness import C02mod

        return C02mod.make(job)
    return Inst(job)
