"""C02, modular variant (DESIGN.md 4/C02): each container method class is run with *stub
children* whose outcome per element is decided by the solver (returns a value / raises a
ValidationError); the parent's error children must be exactly the failing keys, in order.
One such step covers nesting of any depth by induction over the method tree."""
from __future__ import annotations

from typing import Optional

from vf.engine import Ctx, Failure

CONTAINERS = ["ListMethod", "ListCheckOnlyMethod", "SetMethod", "TupleMethod", "MappingMethod", "MappingCheckOnly", "ObjectMethod", "SimpleObjectMethod"]


def jobs(tier):
    return [dict(harness="C02", variant="modular", pid=f"modular({c})", cls=c, opts={}, bounds={}, budget_s=40 if tier == "quick" else 200, width=3 if tier == "quick" else 4) for c in CONTAINERS]


class Inst:
    def __init__(self, job):
        from dataclasses import dataclass, field

        from apischema import ValidationError, alias, deserialization_method
        from apischema.deserialization import methods as M

        self.job = job
        self.M = M
        self.VE = VE = ValidationError
        self.cls = job["cls"]
        self.n = job["width"]

        class Stub(M.DeserializationMethod):
            """child outcome decided by the (symbolic) element"""

            def deserialize(self, data):
                if data < 0:
                    raise VE(["child"], {"deep": VE(["nested"])} if data < -10 else {})
                return data

        self.Stub = Stub
        stub = Stub()
        err = "len"
        c = self.cls
        self.own = None  # (message, predicate on len) of the container's own constraint
        if c in ("ListMethod", "ListCheckOnlyMethod", "SetMethod"):
            self.method = getattr(M, c)((M.MaxItemsConstraint("too many", 1),), stub)
            self.own = ("too many", lambda n: n > 1)
        elif c == "TupleMethod":
            self.method = M.TupleMethod((), err, err, tuple(Stub() for _ in range(self.n)))
        elif c in ("MappingMethod", "MappingCheckOnly"):
            self.method = getattr(M, c)((M.MaxPropertiesConstraint("too many", 1),), stub, stub)
            self.own = ("too many", lambda n: n > 1)
        else:
            ns = {}
            if c == "ObjectMethod":
                @dataclass
                class O:
                    a: int = field(metadata=alias("A"))
                    b: int = 0
                    c: int = 0
            else:
                @dataclass
                class O:  # type: ignore
                    a: int
                    b: int = 0
                    c: int = 0
            self.O = O
            m = deserialization_method(O).__self__
            assert type(m).__name__ == c, type(m).__name__
            for f in m.fields:
                f.method = Stub()
            self.method = m
        self.functions = [f"apischema.deserialization.methods.{c}.deserialize", "apischema.deserialization.methods.set_child_error", "apischema.deserialization.methods.validate_constraints", "apischema.validation.errors.ValidationError._errors"]
        self.expect_tags = ["accepted", "rejected"]
        self.assumptions = ["children are stubs: return their datum or raise a ValidationError with own and nested messages, as the solver decides"]
        self.relax = ()

    def body(self, ctx: Ctx) -> Optional[Failure]:
        c = self.cls
        if c in ("ListMethod", "ListCheckOnlyMethod", "SetMethod", "TupleMethod"):
            n = self.n if c == "TupleMethod" else ctx.choice(self.n + 1, "len")
            d = [ctx.int("e") for _ in range(n)]
            keys = list(range(n))
            vals = d
        elif c in ("MappingMethod", "MappingCheckOnly"):
            keys = [k for k in ("k0", "k1", "k2", "k3")[: self.n] if ctx.flag("has")]
            d = {k: ctx.int("e") for k in keys}
            vals = [d[k] for k in keys]
        else:
            names = {"ObjectMethod": ["A", "b", "c"], "SimpleObjectMethod": ["a", "b", "c"]}[c]
            d = {names[0]: ctx.int("e")}
            for k in names[1:]:
                if ctx.flag("has"):
                    d[k] = ctx.int("e")
            keys = sorted(d)
            vals = [d[k] for k in keys]
        ctx.witness = d
        ctx.run_phase()
        if c in ("MappingMethod", "MappingCheckOnly"):
            # keys go through the key stub too: string keys never fail it
            self.method.key_method = _AcceptAll(self.M)
        try:
            self.method.deserialize(d)
            errors = None
        except self.VE as e:
            errors = e.errors
        exp = []
        if self.own and self.own[1](len(d)):
            exp.append({"loc": [], "err": self.own[0]})  # own messages first, then children
        for k, v in zip(keys, vals):
            if v < 0:
                exp.append({"loc": [k], "err": "child"})
                if v < -10:
                    exp.append({"loc": [k, "deep"], "err": "nested"})
        ctx.notes["tag:accepted" if errors is None else "tag:rejected"] = True
        if errors is None:
            if exp:
                return Failure("child-errors-dropped", witness=d, extra={"expected": exp})
            return None
        if errors != exp:
            return Failure("child-errors-misreported", witness=d, extra={"errors": errors, "expected": exp})
        return None


def _AcceptAll(M):
    class A(M.DeserializationMethod):
        def deserialize(self, data):
            return data

    return A()


def make(job):
    return Inst(job)
