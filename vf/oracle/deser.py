"""Reference semantics of deserialization (DESIGN.md 3.3), written from the documentation
(docs/data_model.md, de_serialization.md, validation.md, json_schema.md).  Shares no code
with apischema.  Runs on concrete or symbolic data alike: it never hashes a datum leaf.

ref_deser(prog, spec, d, opts) -> (errors, value)
   errors: list of (loc tuple, kind); empty <=> d conforms; value is then the typed image.
kinds: type | missing | unexpected | requiredBy | oneOf | c:<constraint keyword>
"""
from __future__ import annotations

from typing import Any, Callable, List, Tuple

from vf.specs import ARR_C, NUM_C, OBJ_C, STR_C, F, Program, Sp, can_default, default_value, is_required, named, static_alias

# patterns used by pools, with hand-written matchers (start-anchored, like re.match)
PATTERNS = {
    "^a": lambda s: len(s) >= 1 and s[0] == "a",
    "^[0-9]+$": lambda s: len(s) >= 1 and all("0" <= c <= "9" for c in s),
    "^a+b?$": lambda s: _ab(s),
    "^x_": lambda s: len(s) >= 2 and s[0] == "x" and s[1] == "_",
    "^p": lambda s: len(s) >= 1 and s[0] == "p",
}


def _ab(s):
    n = len(s)
    i = 0
    while i < n and s[i] == "a":
        i += 1
    if i == 0:
        return False
    if i == n:
        return True
    return i == n - 1 and s[i] == "b"


def jkind(d) -> str:
    if d is None:
        return "null"
    if isinstance(d, bool):
        return "bool"
    if isinstance(d, int):
        return "int"
    if isinstance(d, float):
        return "float"
    if isinstance(d, str):
        return "str"
    if isinstance(d, list):
        return "list"
    if isinstance(d, dict):
        return "dict"
    return "other"


class Opts:
    def __init__(
        self,
        additional_properties=False,
        fall_back_on_default=False,
        aliaser: Callable[[str], str] = None,
    ):
        self.additional_properties = additional_properties
        self.fall_back_on_default = fall_back_on_default
        self.aliaser = aliaser or (lambda s: s)


def same_lit(d, v, relax=()) -> bool:
    """d equals literal v *as JSON values* (bool is not a number)."""
    if "lit_bool_int" in relax and isinstance(v, (bool, int)):
        # known finding: dict lookup identifies True with 1 and False with 0
        return isinstance(d, (bool, int)) and d == v
    if isinstance(v, bool):
        return isinstance(d, bool) and d == v
    if isinstance(v, int):
        return isinstance(d, int) and not isinstance(d, bool) and d == v
    if isinstance(v, float):
        return isinstance(d, float) and d == v
    if isinstance(v, str):
        return isinstance(d, str) and d == v
    if v is None:
        return d is None
    raise ValueError(v)


def check_constraints(cs, d, kind_family, loc, errs, relax=()):
    """cs: constraint pairs; only those of the datum's family apply (JSON Schema rule).
    The same keyword given at several levels (NewType schema, Annotated, field schema, call
    argument) is one constraint, the tightest: one violation, reported once."""
    merged = {}
    for k, v in cs:
        if k not in merged:
            merged[k] = v
        elif k in ("min", "exc_min", "min_len", "min_items", "min_props"):
            merged[k] = max(merged[k], v)
        elif k in ("max", "exc_max", "max_len", "max_items", "max_props"):
            merged[k] = min(merged[k], v)
        elif k == "unique":
            merged[k] = merged[k] or v
        elif k == "mult_of":
            from math import gcd

            merged[k] = merged[k] * v // gcd(merged[k], v)
        else:
            raise ValueError(f"constraint {k} given twice cannot be merged")
    for k, v in merged.items():
        if kind_family == "num" and k in NUM_C:
            if d != d:
                from vf.engine import Assume

                raise Assume("NaN under a numeric constraint (outside oracle domain)")
            bad = (
                (k == "min" and d < v)
                or (k == "max" and d > v)
                or (k == "exc_min" and d <= v)
                or (k == "exc_max" and d >= v)
                or (k == "mult_of" and d % v != 0)
            )
        elif kind_family == "str" and k in STR_C:
            bad = (
                (k == "min_len" and len(d) < v)
                or (k == "max_len" and len(d) > v)
                or (k == "pattern" and not PATTERNS[v](d))
            )
        elif kind_family == "arr" and k in ARR_C:
            bad = (
                (k == "min_items" and len(d) < v)
                or (k == "max_items" and len(d) > v)
                or (k == "unique" and not _unique(d, relax))
            )
        elif kind_family == "obj" and k in OBJ_C:
            bad = (k == "min_props" and len(d) < v) or (k == "max_props" and len(d) > v)
        else:
            continue
        if bad:
            errs.append((loc, "c:" + k))


def _unique(items, relax=()) -> bool:
    n = len(items)
    fam = _fam_relaxed if "unique_bool_int" in relax else _fam
    for i in range(n):
        for j in range(i + 1, n):
            if fam(items[i]) == fam(items[j]) and items[i] == items[j]:
                return False
    return True


def _fam_relaxed(x):
    # known finding: uniqueItems is checked through a Python set, where True == 1
    k = jkind(x)
    return "num" if k in ("int", "float", "bool") else k


def _fam(x):
    k = jkind(x)
    return "num" if k in ("int", "float") else k  # JSON numbers compare across int / float


def accepted_kinds(root: Sp, s: Sp) -> set:
    """JSON kinds a spec can possibly accept (used by generators, not by the verdict)."""
    k = s.k
    if k == "ref":
        return {"dict"}
    if k == "int":
        return {"int"}
    if k == "float":
        return {"int", "float"}
    if k == "str":
        return {"str"}
    if k == "bool":
        return {"bool"}
    if k == "none":
        return {"null"}
    if k == "unsup":
        return set()
    if k == "any":
        return {"null", "bool", "int", "float", "str", "list", "dict"}
    if k == "opt":
        return {"null"} | accepted_kinds(root, s.a[0])
    if k == "union":
        out = set()
        for c in s.a:
            out |= accepted_kinds(root, c)
        return out
    if k in ("list", "seq", "set", "fset", "vtuple", "tuple"):
        return {"list"}
    if k in ("map", "obj", "disc"):
        return {"dict"}
    if k in ("lit", "enum"):
        return {jkind(v) for v in s.a}
    if k in ("newtype", "ann", "undef", "sub"):
        return accepted_kinds(root, s.a[0])
    raise ValueError(k)


class RefDeser:
    def __init__(self, prog: Program, opts: Opts = None, relax=()):
        self.prog = prog
        self.opts = opts or Opts()
        self.defs = named(prog.spec)
        self.relax = frozenset(relax)  # semantics of known findings (vf/known.py)

    def json_class(self, s: Sp):
        """JSON class a union alternative is dispatched on, None if it has none"""
        while s.k in ("ann", "newtype", "undef", "ref", "sub"):
            s = self.defs[s.opt("name")] if s.k == "ref" else s.a[0]
        if s.k in ("int", "float", "str", "bool", "none"):
            return s.k
        if s.k in ("list", "seq", "set", "fset", "vtuple", "tuple"):
            return "list"
        if s.k in ("map", "obj"):
            return "dict"
        return None

    # -- entry
    def run(self, d, spec: Sp = None, extra_cs=()) -> Tuple[List[Tuple[tuple, str]], Any]:
        errs: list = []
        v = self.de(spec or self.prog.spec, d, (), tuple(extra_cs), errs)
        return errs, v

    # -- object helpers
    def obj_fields(self, s: Sp) -> List[F]:
        return [
            f
            for f in s.a
            if "deserialization" not in f.skip and (f.init or f.initvar)
        ]

    def ext(self, s: Sp, f: F) -> str:
        return self.opts.aliaser(static_alias(s, f))

    def flat_aliases(self, s: Sp) -> List[str]:
        """external names consumed by an object spec used as a flattened field"""
        s = self.deref(s)
        out = []
        for f in self.obj_fields(s):
            if f.flatten:
                out.extend(self.flat_aliases(f.sp))
            elif f.properties is None:
                out.append(self.ext(s, f))
        return out

    def deref(self, s: Sp) -> Sp:
        while s.k in ("ref", "ann", "newtype", "undef", "sub"):
            s = self.defs[s.opt("name")] if s.k == "ref" else s.a[0]
        return s

    # -- main recursion; cs = inherited constraints (Annotated / field schema / call)
    def de(self, s: Sp, d, loc: tuple, cs: tuple, errs: list):
        k = s.k
        kd = jkind(d)
        if k == "ref":
            return self.de(self.defs[s.opt("name")], d, loc, cs, errs)
        if k == "ann":
            return self.de(s.a[0], d, loc, tuple(s.opt("c")) + cs, errs)
        if k == "newtype":
            return self.de(s.a[0], d, loc, tuple(s.opt("schema") or ()) + cs, errs)
        if k == "undef":  # Undefined is never a deserialization alternative
            return self.de(s.a[0], d, loc, cs, errs)
        if k == "sub":  # subclass of a primitive: the primitive, then the class
            n0 = len(errs)
            v = self.de(s.a[0], d, loc, cs, errs)
            return self.prog.cls(s.opt("name"))(v) if len(errs) == n0 else None
        if k == "any":
            fam = {"int": "num", "float": "num", "str": "str", "list": "arr", "dict": "obj"}.get(kd)
            if fam:
                check_constraints(cs, d, fam, loc, errs, self.relax)
            return d
        if k == "none":
            if kd != "null":
                errs.append((loc, "type"))
            return None
        if k == "bool":
            if kd != "bool":
                errs.append((loc, "type"))
            return d
        if k == "int":
            if kd != "int":
                errs.append((loc, "type"))
                return d
            check_constraints(cs, d, "num", loc, errs, self.relax)
            return d
        if k == "float":
            if kd not in ("int", "float"):
                errs.append((loc, "type"))
                return d
            v = float(d)
            check_constraints(cs, v, "num", loc, errs, self.relax)
            return v
        if k == "str":
            if kd != "str":
                errs.append((loc, "type"))
                return d
            check_constraints(cs, d, "str", loc, errs, self.relax)
            return d
        if k in ("opt", "union"):
            if k == "opt":
                # Optional is the two-alternative union
                if kd == "null":
                    return None
                alts = [s.a[0], P_NONE]
            else:
                # documented: unsupported members of a union are ignored
                alts = [a for a in s.a if a.k != "unsup"]
            # typing flattens nested unions and removes duplicate members:
            # Optional[Optional[int]] is Optional[int], Optional[None] is None
            flat = []
            todo = list(alts)
            while todo:
                a = todo.pop(0)
                if a.k == "opt" and not cs:
                    todo[:0] = [a.a[0], P_NONE]
                elif a.k == "union" and not cs:
                    todo[:0] = [x for x in a.a if x.k != "unsup"]
                elif a not in flat:
                    flat.append(a)
            alts = flat
            if "union_bytype_int" in self.relax and kd == "int":
                # known finding: dispatch by type(data) has no `int` entry for a float
                # alternative when all alternatives have distinct JSON classes
                classes = [self.json_class(a) for a in alts]
                if None not in classes and len(set(classes)) == len(classes) and "float" in classes and "int" not in classes:
                    errs.extend((loc, "type") for _ in classes)  # one message per expected class
                    return None
            all_errs = []
            images = []
            for alt in alts:
                e: list = []
                v = self.de(alt, d, loc, cs, e)
                if not e:
                    images.append(v)
                all_errs.extend(e)
            if images:
                # first accepting alternative; C13 (not C01) pins *which* one when several
                # alternatives accept with ==-equal images (Union[float, int] <- 0)
                return images[0] if len(images) == 1 else AnyOf(images)
            errs.extend(all_errs)
            return None
        if k in ("list", "seq", "set", "fset", "vtuple"):
            if kd != "list":
                errs.append((loc, "type"))
                return None
            n0 = len(errs)
            check_constraints(cs, d, "arr", loc, errs, self.relax)
            vals = [self.de(s.a[0], x, loc + (i,), (), errs) for i, x in enumerate(d)]
            if len(errs) > n0:
                return None
            if k in ("list", "seq"):
                return vals
            if k == "set":
                return set(vals)
            if k == "fset":
                return frozenset(vals)
            return tuple(vals)
        if k == "tuple":
            if kd != "list":
                errs.append((loc, "type"))
                return None
            n = len(s.a)
            if len(d) < n:
                errs.append((loc, "c:min_items"))
                return None
            if len(d) > n:
                errs.append((loc, "c:max_items"))
                return None
            n0 = len(errs)
            check_constraints(cs, d, "arr", loc, errs, self.relax)
            vals = [self.de(c, d[i], loc + (i,), (), errs) for i, c in enumerate(s.a)]
            return tuple(vals) if len(errs) == n0 else None
        if k == "map":
            if kd != "dict":
                errs.append((loc, "type"))
                return None
            n0 = len(errs)
            check_constraints(cs, d, "obj", loc, errs, self.relax)
            out = {}
            for key in d:
                e: list = []
                kv = self.de(s.a[0], key, loc + (key,), (), e)
                if e and "map_keys_unchecked" in self.relax:
                    # known finding (schema side): key constraints are not part of the schema;
                    # under patternProperties a non-matching key is not constrained at all
                    kb, kcs = s.a[0], ()
                    while kb.k in ("ann", "newtype"):
                        kcs += tuple(kb.opt("c") or kb.opt("schema") or ())
                        kb = kb.a[0]
                    if "pattern" in dict(kcs):
                        out[key] = d[key]
                        continue
                    e, kv = [], key
                if e:
                    errs.extend(e)  # value not examined once the key is invalid
                    continue
                out[kv] = self.de(s.a[1], d[key], loc + (key,), (), errs)
            return out if len(errs) == n0 else None
        if k == "lit":
            for v in s.a:
                if same_lit(d, v, self.relax):
                    return v
            errs.append((loc, "oneOf"))
            return None
        if k == "enum":
            cls = self.prog.cls(s.opt("name"))
            for i, v in enumerate(s.a):
                if same_lit(d, v, self.relax):
                    return getattr(cls, f"m{i}")
            errs.append((loc, "oneOf"))
            return None
        if k == "obj":
            return self.de_obj(s, d, loc, cs, errs)
        if k == "disc":
            # documented (json_schema.md, OpenAPI discriminator): an object carrying the
            # discriminator property, whose value selects the alternative; the property itself
            # belongs to the alternative only when it declares a field under that name
            if kd != "dict":
                errs.append((loc, "type"))
                return None
            alias = self.opts.aliaser(s.opt("alias"))
            if alias not in d:
                errs.append((loc + (alias,), "missing"))
                return None
            by_key = dict(s.opt("mapping"))
            key = d[alias]
            if jkind(key) != "str" or key not in by_key:
                errs.append((loc + (alias,), "oneOf"))
                return None
            alt = next(a for a in map(self.deref, s.a) if a.opt("name") == by_key[key])
            has_field = any(self.ext(alt, f) == alias for f in self.obj_fields(alt))
            d2 = d if has_field else {k2: v for k2, v in d.items() if k2 != alias}
            return self.de_obj(alt, d2, loc, cs, errs)
        raise ValueError(k)

    def de_obj(self, s: Sp, d, loc, cs, errs):
        if jkind(d) != "dict":
            errs.append((loc, "type"))
            return None
        n0 = len(errs)
        check_constraints(cs, d, "obj", loc, errs, self.relax)
        values, remain = self.obj_values(s, d, loc, errs, set(d.keys()), top=True)
        if len(errs) > n0:
            return None
        return self.construct(s, values)

    def obj_values(self, s: Sp, d, loc, errs, remain: set, top: bool):
        """deserialize the fields of object spec s out of d (flattened objects share d)."""
        values = {}
        kind = s.opt("kind")
        fields = self.obj_fields(s)
        dep_req = dict(s.opt("dependent_required", ()))
        by_name = {f.name: f for f in fields}
        for f in fields:
            if f.flatten or f.properties is not None:
                continue
            a = self.ext(s, f)
            required = is_required(s, f)
            fbd = (f.fall_back or self.opts.fall_back_on_default) and not required and can_default(s, f)
            fsp = f.sp
            if f.none_as_undefined and fsp.k == "opt":
                fsp = fsp.a[0]  # documented: None is not accepted, it stands for Undefined
            if a in d:
                remain.discard(a)
                e: list = []
                v = self.de(fsp, d[a], loc + (a,), tuple(f.schema), e)
                if e:
                    if not fbd:
                        errs.extend(e)
                else:
                    values[f.name] = v
            elif required:
                errs.append((loc + (a,), "missing"))
            else:
                for req_by, needed in dep_req.items():
                    # field `req_by` present requires the fields in `needed`
                    if f.name in needed and self.ext(s, by_name[req_by]) in d:
                        errs.append((loc + (a,), "requiredBy"))
                        break
        for f in fields:
            if f.flatten:
                sub = self.deref(f.sp)
                subvals, _ = None, None
                e: list = []
                n_before = len(e)
                subvalues, _ = self.obj_values(sub, d, loc, e, remain, top=False)
                fbd = (f.fall_back or self.opts.fall_back_on_default) and f.has_default
                if e:
                    if not fbd:
                        errs.extend(e)
                else:
                    values[f.name] = self.construct(sub, subvalues)
        for f in fields:
            if isinstance(f.properties, str):
                m = self.deref(f.sp)
                sub = {}
                for key in sorted(remain):
                    if PATTERNS[f.properties](key):
                        sub[key] = d[key]
                for key in sub:
                    remain.discard(key)
                e = []
                v = self.de(f.sp, sub, loc, tuple(f.schema), e)
                fbd = (f.fall_back or self.opts.fall_back_on_default) and f.has_default
                if e:
                    if not fbd:
                        errs.extend(e)
                else:
                    values[f.name] = v
        addl = [f for f in fields if f.properties is True]
        if addl:
            f = addl[0]
            sub = {key: d[key] for key in sorted(remain)}
            remain.clear()
            e = []
            v = self.de(f.sp, sub, loc, tuple(f.schema), e)
            fbd = (f.fall_back or self.opts.fall_back_on_default) and f.has_default
            if e:
                if not fbd:
                    errs.extend(e)
            else:
                values[f.name] = v
        if top:
            if not self.opts.additional_properties:
                for key in sorted(remain):
                    errs.append((loc + (key,), "unexpected"))
            elif kind == "typeddict":
                for key in sorted(remain):
                    values[key] = d[key]
        return values, remain

    def construct(self, s: Sp, values: dict):
        kind = s.opt("kind")
        if kind == "typeddict":
            return dict(values)
        cls = self.prog.cls(s.opt("name"))
        kwargs = dict(values)
        for f in self.obj_fields(s):
            if f.name not in kwargs and f.has_default and kind == "namedtuple":
                pass  # NamedTuple applies its own defaults
        return cls(**kwargs)


P_NONE = Sp("none")


class AnyOf:
    """image of a union position where several alternatives accept"""

    def __init__(self, values):
        self.values = values

    def __repr__(self):
        return f"AnyOf({self.values!r})"


def message_kinds(prog: Program, opts: Opts = None):
    """exact message -> kind, computed from the *configuration* (settings.errors templates)
    and the spec's own constraint values; anything else is a type error message."""
    from apischema import settings

    from vf.specs import CONSTRAINT_KW, walk

    table = {
        settings.errors.missing_property: "missing",
        settings.errors.unexpected_property: "unexpected",
    }

    def add(pairs):
        for k, v in pairs:
            tmpl = getattr(settings.errors, CONSTRAINT_KW[k])
            if isinstance(tmpl, str):
                table[tmpl.format(v)] = "c:" + k

    for s in walk(prog.spec):
        if s.k == "ann":
            add(s.opt("c"))
        if s.k == "newtype" and s.opt("schema"):
            add(s.opt("schema"))
        if s.k == "obj":
            for f in s.a:
                add(f.schema)
        if s.k == "tuple":
            add((("min_items", len(s.a)), ("max_items", len(s.a))))
        if s.k in ("lit", "enum"):
            tmpl = settings.errors.one_of
            vals = list(s.a)
            if isinstance(tmpl, str):
                table[tmpl.format(vals)] = "oneOf"
    return table


def classify(msg: str, table) -> str:
    if msg in table:
        return table[msg]
    if "(required by " in msg:
        return "requiredBy"
    return "type"
