"""Shared pieces of harnesses: program instantiation, evidence helpers."""
from __future__ import annotations

import dataclasses
from typing import Any, Dict, List

from vf import pools
from vf.oracle.deser import Opts
from vf.specs import Program, build
from vf.sym import Bounds

ALIASERS = {
    "identity": None,
    "camel": "camel",
    "prefix": "prefix",
}


def prefix_aliaser(s: str) -> str:
    return "x_" + s


def get_aliaser(name):
    if name in (None, "identity"):
        return None
    if name == "camel":
        from apischema.utils import to_camel_case

        return to_camel_case
    if name == "prefix":
        return prefix_aliaser
    raise ValueError(name)


def program_of(job) -> Program:
    spec, src = pools.get(job["pool"], job["pid"])
    return build(job["pid"], spec, src)


def ref_opts(job) -> Opts:
    o = job.get("opts", {})
    return Opts(
        additional_properties=o.get("additional_properties", False),
        fall_back_on_default=o.get("fall_back_on_default", False),
        aliaser=get_aliaser(o.get("aliaser")),
    )


def api_kwargs(job) -> dict:
    o = job.get("opts", {})
    kw = {}
    for k in ("additional_properties", "fall_back_on_default", "no_copy", "coerce"):
        if k in o:
            kw[k] = o[k]
    if o.get("aliaser"):
        kw["aliaser"] = get_aliaser(o["aliaser"])
    return kw


def bounds_of(job) -> Bounds:
    return Bounds(**job.get("bounds", {}))


def method_classes(method, prefix="") -> List[str]:
    """qualified names of the `deserialize` / `serialize` functions in a compiled tree"""
    seen, out = set(), set()

    def rec(x):
        if id(x) in seen:
            return
        seen.add(id(x))
        mod = getattr(type(x), "__module__", "")
        if mod.startswith("apischema.") and (
            hasattr(x, "deserialize") or hasattr(x, "serialize") or hasattr(x, "update_result") or hasattr(x, "construct") or hasattr(x, "validate")
        ):
            for attr in ("deserialize", "serialize", "update_result", "construct", "validate"):
                if hasattr(type(x), attr):
                    out.add(f"{mod}.{type(x).__qualname__}.{attr}")
        if mod.startswith("apischema.deserialization.methods") and type(x).__name__ == "RecMethod":
            try:
                if x.method is None:
                    x.method = x.lazy()
                rec(x.method)
            except Exception:
                pass
        if dataclasses.is_dataclass(x) and not isinstance(x, type):
            for f in dataclasses.fields(x):
                rec(getattr(x, f.name, None))
        elif isinstance(x, (list, tuple, set, frozenset)):
            for v in x:
                rec(v)
        elif isinstance(x, dict):
            for v in x.values():
                rec(v)

    rec(method)
    return sorted(out)


def self_of(bound_method):
    return getattr(bound_method, "__self__", None)
