"""writes seeded/<id>/meta.json from one table"""
import json, os
ROOT = os.path.dirname(os.path.dirname(os.path.abspath(__file__)))
T = {
 "C01-1": ("C01", "flatten field + non-identity aliaser renaming a field of the flattened class", ["C01", "C02", "C05", "C11"]),
 "C01-2": ("C01", "exactly two-member Optional[X] with a schema constraint on the union as a whole and a non-null violating value", ["C01", "C06"]),
 "C02-1": ("C02", "a container that both violates its own constraint and holds an invalid element", ["C02"]),
 "C02-2": ("C02", "dependent_required on a class whose requiring field is renamed on the wire (alias or aliaser)", ["C01", "C02"]),
 "C03-1": ("C03", "discriminated union + dict payload whose discriminator value is unhashable (list / dict)", ["C03"]),
 "C03-2": ("C03", "class with a validator; an earlier call invalid on field X, then a later payload where X is valid, the validator fails and another field is invalid (rebased on the repaired tree)", ["C10", "C03"]),
 "C04-1": ("C04", "TypedDict + additional_properties=True + a field omitted (None / none_as_undefined) or aliased", ["C04", "C05"]),
 "C04-2": ("C04", "non int/str Enum mixing primitive and structured values, default options", ["C04"]),
 "C05-1": ("C05", "TypedDict + additional_properties=True + explicitly aliased field", ["C05", "C04"]),
 "C05-2": ("C05", "flatten field + aliaser renaming a nested field", ["C05", "C01"]),
 "C06-1": ("C06", "two schemas on the same position (NewType schema(min=0) + field / call schema) and a value violating the zero bound", ["C06"]),
 "C06-2": ("C06", "aliaser that renames a field + class with a properties / flatten field", ["C06"]),
 "C07-1": ("C07", "dynamic / field conversion whose source is the element of a List / Dict / Optional annotation", ["C12"]),
 "C07-2": ("C07", "global exclude_defaults=True with exclude_none=False, Optional field without default holding None", ["C07"]),
 "C08-1": ("C08", "two calls in one process with identical flags but different PassThroughOptions.types", ["C08"]),
 "C08-2": ("C08", "override_dataclass_constructors=True + subclass inheriting __post_init__ + data on which it has an effect", ["C08"]),
 "C09-1": ("C09", "a type first used while not recursive, then a registration closing a cycle, then used again", ["C09"]),
 "C09-2": ("C09", "discriminated union with implicit mapping observed, then settings.default_type_name assigned, observed again (recreated from the agent's report)", ["C09"]),
 "C10-1": ("C10", "an invalid / missing field plus a validator depending only on defaulted absent fields", ["C10"]),
 "C10-2": ("C10", "validator in a subclass using a helper method / property defined in the parent", ["C10"]),
 "C11-1": ("C11", "non-identity aliaser + failing field validator (implicit discard) + one more validator failing in the same call", ["C10"]),
 "C11-2": ("C11", "flatten + aliaser changing a name of the flattened class", ["C11", "C01"]),
 "C12-1": ("C12", "recursive class whose self-referencing field has a field conversion containing the class again", ["C12"]),
 "C12-2": ("C12", "subclass inheriting a generic serializer (class IntBag(Bag[int]))", ["C12"]),
 "C13-1": ("C13", "discriminated union whose alternative has a flattened / pattern field", ["C13"]),
 "C13-2": ("C13", "a class owning several discriminator values (Literal field), value carrying any but the first", ["C13"]),
 "C14-1": ("C14", "coerce=True + boolean datum where str is expected", ["C14"]),
 "C14-2": ("C14", "pass-through custom coercer + two-member Optional[X] + datum X rejects", ["C14"]),
 "C15-1": ("C15", "with_fields_set dataclass with an InitVar supplied by keyword (deserialize always does)", ["C15"]),
 "C15-2": ("C15", "unset a required field then serialize with exclude_unset on", ["C15"]),
 "C16-1": ("C16", "an element with both field-level ordering and a class-level override entry", ["C16"]),
 "C16-2": ("C16", "serialized method with an explicit alias referenced by another element's after= / before=", ["C16"]),
 "C18-1": ("C18", "OPEN_API_3_0 + union of several bare JSON types plus None", ["C18"]),
 "C18-2": ("C18", "two versions with colliding (schema, ref_prefix) generated in one process", ["C18"]),
 "C19-1": ("C19", "operation with an error_handler + argument accepted by graphql-core but rejected by apischema", ["C19"]),
 "C19-2": ("C19", "interface reached through an intermediate class", ["C19"]),
 "C20-1": ("C20", "two threads inside recursion analysis at once (T2's first use while T1 is mid-visit)", ["C20"]),
 "C20-2": ("C20", "first nested deserialization of a recursive type from two threads, switch while T1 is inside lazy()", ["C20"]),
}
for sid, (prop, needs, by) in T.items():
    d = os.path.join(ROOT, "seeded", sid)
    os.makedirs(d, exist_ok=True)
    last = os.path.join(d, "last_run.txt")
    meta = {
        "id": sid,
        "breaks_property": prop,
        "source": "independent sub-agent given only the property text and a scratch worktree",
        "needs_to_manifest": needs,
        "confirmed": "patch applies to /repo HEAD, pinned suite stays at 283 passed, demo.py exits non-zero with the change and 0 without (tools/try_seed.sh)",
        "ran": f"tools/try_seed.sh /verif/seeded/{sid} " + " ".join(by),
        "detected_by_quick_checks": by,
        "last_run_file": "last_run.txt" if os.path.exists(last) else None,
    }
    json.dump(meta, open(os.path.join(d, "meta.json"), "w"), indent=1)
print(len(T))
