"""C10: validators run exactly when their inputs are valid; all errors are merged
(DESIGN.md 4/C10).  Generated validators append their name to a log and fail when a
symbolic field value crosses a threshold, so pass / fail outcomes are decided by the solver.
The dependency sets of the reference model are written by hand from the documentation
(attributes read on self, transitively through methods and properties)."""
from __future__ import annotations

from typing import Optional

from vf.engine import Ctx, Failure
from vf.harness.common import bounds_of, get_aliaser, method_classes, self_of, tree_state
from vf.oracle.deser import Opts, RefDeser, classify, message_kinds
from vf.specs import F, Sp, build, mp, obj, opt, static_alias
from vf.pools import INT, STR, V, Fy

HEADER = "LOG = []\nfrom apischema.objects import get_alias\n"


def vsrc(name, cond, how="raise", deco="@validator", path=None):
    """source of one validator method"""
    if how == "raise":
        fail = f"raise ValidationError({name!r})"
    elif path is None:
        fail = f"yield {name!r}"
    else:
        fail = f"yield ({path}, {name!r})"
    return f"{deco}\ndef {name}(self):\n    LOG.append({name!r})\n    if {cond}:\n        {fail}\n"


def prog(name, fields, body, validators, pre="", order=None, **o):
    return dict(spec=obj(name, *fields, body=body, **o), src=HEADER + pre, validators=validators, order=order)


PROGRAMS = {
    # two independent validators + one through a method
    "basic": prog(
        "Vb",
        [F("a", INT), F("b", INT, default=V("0")), F("c", INT, default=V("1"))],
        "def total(self):\n    return self.a + self.b\n"
        + vsrc("v1", "self.a > 5")
        + vsrc("v2", "self.total() > 10", "yield")
        + vsrc("v3", "self.c < 0"),
        [
            dict(name="v1", deps={"a"}, fail=lambda v: v["a"] > 5, errs=[((), "v1")]),
            dict(name="v2", deps={"a", "b"}, fail=lambda v: v["a"] + v["b"] > 10, errs=[((), "v2")]),
            dict(name="v3", deps={"c"}, fail=lambda v: v["c"] < 0, errs=[((), "v3")]),
        ],
    ),
    # property dependency, yield with a path through get_alias, aliased field
    "aliased": prog(
        "Va",
        [F("a", INT), F("b", INT, default=V("0"), alias="B"), F("c", opt(INT), default=V("None"))],
        "@property\ndef double(self):\n    return self.b * 2\n"
        + vsrc("v1", "self.double > 4", "yield", path="get_alias(self).b")
        + vsrc("v2", "self.a == self.b"),
        [
            dict(name="v1", deps={"b"}, fail=lambda v: v["b"] * 2 > 4, errs=[(("@b",), "v1")]),
            dict(name="v2", deps={"a", "b"}, fail=lambda v: v["a"] == v["b"], errs=[((), "v2")]),
        ],
    ),
    # field validator: error placed under the field alias, field implicitly discarded
    "field": prog(
        "Vf",
        [F("a", INT), F("b", INT, default=V("0"), alias="bb")],
        vsrc("v1", "self.b > 3", deco="@validator('b')")
        + vsrc("v2", "self.b < -3")
        + vsrc("v3", "self.a > 3")
        + vsrc("v4", "self.a < -3", deco="@validator('a')")
        + vsrc("v5", "self.a == 7", "yield", path="get_alias(self).b"),
        [
            dict(name="v1", deps={"b"}, field="b", discard={"b"}, fail=lambda v: v["b"] > 3, errs=[(("bb",), "v1")]),
            dict(name="v2", deps={"b"}, fail=lambda v: v["b"] < -3, errs=[((), "v2")]),
            dict(name="v3", deps={"a"}, fail=lambda v: v["a"] > 3, errs=[((), "v3")]),
            dict(name="v4", deps={"a"}, field="a", discard={"a"}, fail=lambda v: v["a"] < -3, errs=[(("a",), "v4")]),
            dict(name="v5", deps={"a"}, fail=lambda v: v["a"] == 7, errs=[(("@b",), "v5")]),
        ],
    ),
    # explicit discard of a field the failing validator does not read
    "discard": prog(
        "Vd",
        [F("a", INT), F("b", INT, default=V("0")), F("c", INT, default=V("0"))],
        vsrc("v1", "self.a > 2", deco="@validator(discard='b')")
        + vsrc("v2", "self.b > 2")
        + vsrc("v3", "self.c > 2")
        + vsrc("v4", "self.a < -2", deco="@validator(discard=['a', 'c'])"),
        [
            dict(name="v1", deps={"a"}, discard={"b"}, fail=lambda v: v["a"] > 2, errs=[((), "v1")]),
            dict(name="v2", deps={"b"}, fail=lambda v: v["b"] > 2, errs=[((), "v2")]),
            dict(name="v3", deps={"c"}, fail=lambda v: v["c"] > 2, errs=[((), "v3")]),
            dict(name="v4", deps={"a"}, discard={"a", "c"}, fail=lambda v: v["a"] < -2, errs=[((), "v4")]),
        ],
    ),
    # inheritance: validators of the class first, then those of its bases
    "inherit": prog(
        "Vi",
        [F("a", INT), F("b", INT, default=V("0")), F("z", INT, default=V("0"))],
        "def plus(self):\n    return self.a + self.z\n"
        + vsrc("w1", "self.plus() > 5")
        + vsrc("w2", "self.b > 5", "yield")
        + vsrc("w3", "self.base_total() < -5")
        + vsrc("w4", "self.base_b == 4"),
        [
            dict(name="w1", deps={"a", "z"}, fail=lambda v: v["a"] + v["z"] > 5, errs=[((), "w1")]),
            dict(name="w2", deps={"b"}, fail=lambda v: v["b"] > 5, errs=[((), "w2")]),
            dict(name="w3", deps={"a", "b"}, fail=lambda v: v["a"] + v["b"] < -5, errs=[((), "w3")]),
            dict(name="w4", deps={"b"}, fail=lambda v: v["b"] == 4, errs=[((), "w4")]),
            dict(name="p1", deps={"a"}, fail=lambda v: v["a"] < 0, errs=[((), "p1")]),
        ],
        pre="@dataclass\nclass VBase:\n    a: int\n    b: int = 0\n    def base_total(self):\n        return self.a + self.b\n"
        "    @property\n    def base_b(self):\n        return self.b\n"
        + "\n".join("    " + ln for ln in vsrc("p1", "self.a < 0").splitlines())
        + "\n",
        bases="VBase",
    ),
    # all dependencies defaulted: the validator must not run; yields with nested paths
    "defaults": prog(
        "Vx",
        [F("a", INT, default=V("-1")), F("b", INT, default=V("0")), F("s", STR, default=V("''"))],
        vsrc("v1", "self.a < 0")
        + vsrc("v2", "self.b > self.a", "yield", path="('b', 0)")
        + vsrc("v3", "len(self.s) > 1"),
        [
            dict(name="v1", deps={"a"}, fail=lambda v: v["a"] < 0, errs=[((), "v1")]),
            dict(name="v2", deps={"a", "b"}, fail=lambda v: v["b"] > v["a"], errs=[(("b", 0), "v2")]),
            dict(name="v3", deps={"s"}, fail=lambda v: len(v["s"]) > 1, errs=[((), "v3")]),
        ],
    ),
    # one validator yielding several located errors, two of them under the same key, one
    # un-located; a second validator adding a third error under that same key
    "multi": prog(
        "Vm",
        [F("a", INT), F("b", INT, default=V("0"), alias="B"), F("c", INT, default=V("0"))],
        "@validator\ndef m1(self):\n    LOG.append('m1')\n    if self.a > 2:\n        yield ('xs', 0), 'm1'\n        yield ('xs', 2), 'm1b'\n"
        "        yield 'm1c'\n        yield get_alias(self).b, 'm1d'\n        yield (get_alias(self).b, 'k'), 'm1e'\n"
        + vsrc("m2", "self.c > 2", "yield", path="('xs', 0)")
        + vsrc("m3", "self.c > 3", "yield", path="'xs'"),
        [
            dict(name="m1", deps={"a"}, fail=lambda v: v["a"] > 2,
                 errs=[(("xs", 0), "m1"), (("xs", 2), "m1b"), ((), "m1c"), (("@b",), "m1d"), (("@b", "k"), "m1e")]),
            dict(name="m2", deps={"c"}, fail=lambda v: v["c"] > 2, errs=[(("xs", 0), "m2")]),
            dict(name="m3", deps={"c"}, fail=lambda v: v["c"] > 3, errs=[(("xs",), "m3")]),
        ],
    ),
    # a validator taking an InitVar parameter, the InitVar known under an alias
    "initvar": prog(
        "Vv",
        [F("a", INT), F("x", INT, initvar=True, alias="y"), F("z", INT, initvar=True, default=V("0"))],
        "def __post_init__(self, x, z):\n    pass\n"
        "@validator\ndef i1(self, x):\n    LOG.append('i1')\n    if x > 3:\n        raise ValidationError('i1')\n"
        "@validator\ndef i3(self, z):\n    LOG.append('i3')\n    if z + self.a > 6:\n        raise ValidationError('i3')\n"
        + vsrc("i2", "self.a > 3"),
        [
            dict(name="i1", deps={"x"}, fail=lambda v: v["x"] > 3, errs=[((), "i1")]),
            dict(name="i3", deps={"z", "a"}, fail=lambda v: v["z"] + v["a"] > 6, errs=[((), "i3")]),
            dict(name="i2", deps={"a"}, fail=lambda v: v["a"] > 3, errs=[((), "i2")]),
        ],
    ),
    # aggregate fields (pattern properties with a root-level constraint, flattened object) read
    # by class validators: an invalid aggregate is an invalid input of the validator
    "aggr": prog(
        "Vg",
        [
            F("p", mp(INT), properties="^p", schema=(("min_props", 1),)),
            F("inner", obj("Vin", F("u", INT), F("v", INT, default=V("0"))), flatten=True),
            F("a", INT, default=V("0")),
        ],
        vsrc("g1", "len(self.p) > 1", "yield")
        + vsrc("g2", "self.inner.u > 5")
        + vsrc("g3", "self.a > 3", "yield", path="get_alias(self).a")
        + vsrc("g4", "self.a + len(self.p) > 5")
        + vsrc("g5", "self.a + self.inner.v > 6"),
        [
            dict(name="g1", deps={"p"}, fail=lambda v: len(v["p"]) > 1, errs=[((), "g1")]),
            dict(name="g2", deps={"inner"}, fail=lambda v: v["inner"]["u"] > 5, errs=[((), "g2")]),
            dict(name="g3", deps={"a"}, fail=lambda v: v["a"] > 3, errs=[(("@a",), "g3")]),
            dict(name="g4", deps={"a", "p"}, fail=lambda v: v["a"] + len(v["p"]) > 5, errs=[((), "g4")]),
            dict(name="g5", deps={"a", "inner"}, fail=lambda v: v["a"] + v["inner"]["v"] > 6, errs=[((), "g5")]),
        ],
    ),
    # round 4: two helpers sharing a third one (diamond in the call graph), each used alone
    # by a later validator; mutually recursive helpers; a helper whose callee is overridden
    "shared": prog(
        "Vs",
        [F("x", INT), F("y", INT, default=V("0")), F("z", INT, default=V("0"))],
        "def h(self):\n    return self.x\n@property\ndef p(self):\n    return self.h() + self.y\n"
        "def q(self):\n    return self.h() - self.z\n"
        + vsrc("s1", "self.p + self.q() > 10")
        + vsrc("s2", "self.q() > 4", "yield")
        + vsrc("s3", "self.p < -4"),
        [
            dict(name="s1", deps={"x", "y", "z"}, fail=lambda v: 2 * v["x"] + v["y"] - v["z"] > 10, errs=[((), "s1")]),
            dict(name="s2", deps={"x", "z"}, fail=lambda v: v["x"] - v["z"] > 4, errs=[((), "s2")]),
            dict(name="s3", deps={"x", "y"}, fail=lambda v: v["x"] + v["y"] < -4, errs=[((), "s3")]),
        ],
    ),
    "mutual": prog(
        "Vu",
        [F("x", INT, default=V("0")), F("y", INT, default=V("0"))],
        "def ma(self, n=1):\n    return self.x if n <= 0 else self.mb(n - 1)\n"
        "def mb(self, n=1):\n    return self.y if n <= 0 else self.ma(n - 1)\n"
        + vsrc("u1", "self.ma() > 5")
        + vsrc("u2", "self.mb() > 5"),
        [
            dict(name="u1", deps={"x", "y"}, fail=lambda v: v["y"] > 5, errs=[((), "u1")]),
            dict(name="u2", deps={"x", "y"}, fail=lambda v: v["x"] > 5, errs=[((), "u2")]),
        ],
    ),
    # the base validator only *mentions* helper() (never executed), so that the base-class
    # analysis of helper -> leaf is what a function-keyed cache would hand to the subclass
    "override": prog(
        "Vo",
        [F("a", INT, default=V("0")), F("b", INT, default=V("0"))],
        "def leaf(self):\n    return self.b\n" + vsrc("o2", "self.helper() > 5"),
        [
            dict(name="o2", deps={"b"}, fail=lambda v: v["b"] > 5, errs=[((), "o2")]),
            dict(name="o1", deps={"a"}, fail=lambda v: v["a"] > 5, errs=[((), "o1")]),
        ],
        pre="@dataclass\nclass OBase:\n    a: int = 0\n    def leaf(self):\n        return self.a\n"
        "    def helper(self):\n        return self.leaf()\n"
        + "\n".join("    " + ln for ln in vsrc("o1", "(self.a > 5) if True else self.helper()").splitlines())
        + "\n",
        bases="OBase",
    ),
    # yielded paths that are falsy: index 0, the empty-string key
    "falsy": prog(
        "Vz",
        [F("a", INT), F("b", INT, default=V("0"))],
        vsrc("z1", "self.a > 2", "yield", path="0")
        + vsrc("z2", "self.b > 2", "yield", path="''")
        + vsrc("z3", "self.b < -2", "yield", path="('', 0)"),
        [
            dict(name="z1", deps={"a"}, fail=lambda v: v["a"] > 2, errs=[((0,), "z1")]),
            dict(name="z2", deps={"b"}, fail=lambda v: v["b"] > 2, errs=[(("",), "z2")]),
            dict(name="z3", deps={"b"}, fail=lambda v: v["b"] < -2, errs=[(("", 0), "z3")]),
        ],
    ),
}


def jobs(prop, tier, seed):
    out = []
    q = tier == "quick"
    for pid in PROGRAMS:
        for o in ({}, {"aliaser": "prefix"}, {"additional_properties": True}):
            b = dict(depth=1, width=1, strlen=2, budget=1 if q else 2)
            out.append(dict(harness="C10", pid=pid, opts=o, bounds=b, budget_s=60 if q else 240))
    return out


class Inst:
    def __init__(self, job):
        from apischema import ValidationError, deserialization_method

        from vf.harness.common import api_kwargs

        self.job = job
        P = PROGRAMS[job["pid"]]
        self.P = P
        self.prog = build(job["pid"], P["spec"], P["src"])
        self.kw = api_kwargs(job)
        self.method = deserialization_method(self.prog.tp, **self.kw)
        o = job.get("opts", {})
        self.opts = Opts(additional_properties=o.get("additional_properties", False), aliaser=get_aliaser(o.get("aliaser")))
        self.bounds = bounds_of(job)
        self.table = message_kinds(self.prog)
        self.vnames = {m for v in P["validators"] for _, m in v["errs"]}
        self.VE = ValidationError
        self.LOG = self.prog.module.LOG
        self.functions = method_classes(self_of(self.method)) + [
            "apischema.validation.validators.validate",
            "apischema.validation.mock.ValidatorMock.__getattribute__",
            "apischema.validation.errors.build_validation_error",
            "apischema.validation.errors.merge_errors",
            "apischema.validation.errors.apply_aliaser",
            "apischema.validation.dependencies.find_all_dependencies (concrete, at class creation)",
        ]
        self.expect_tags = ["accepted", "validator-failed", "validator-skipped"]
        self.assumptions = ["validators are the generated ones: they only read fields and append to a log"]
        self.relax = ()

    def model(self, d, struct_errs):
        """reference: which validators run, in order, and which errors they produce"""
        spec = self.P["spec"]
        al = self.opts.aliaser
        ext = {f.name: al(static_alias(spec, f)) for f in spec.a}
        err_locs = {loc[0] for loc, _ in struct_errs if loc}
        plain = [f for f in spec.a if not f.flatten and f.properties is None]
        provided = {f.name for f in plain if ext[f.name] in d and ext[f.name] not in err_locs}
        invalid = {f.name for f in plain if ext[f.name] in err_locs}
        values = {}
        from vf.specs import default_value

        for f in plain:
            if f.name in provided:
                values[f.name] = d[ext[f.name]]
            elif f.has_default:
                values[f.name] = default_value(self.prog, f)
        # aggregate fields: always given; invalid as soon as one of their keys (or their
        # root-level constraint) is
        import re

        declared = {ext[f.name] for f in plain}
        for f in spec.a:
            if f.flatten:
                inner = f.sp
                keys = {g.name: al(static_alias(inner, g)) for g in inner.a}
                declared |= set(keys.values())
        root_constraint = any(not loc and k.startswith("c:") for loc, k in struct_errs)
        for f in spec.a:
            if f.flatten:
                keys = {g.name: al(static_alias(f.sp, g)) for g in f.sp.a}
                if set(keys.values()) & err_locs:
                    invalid.add(f.name)
                else:
                    provided.add(f.name)
                    values[f.name] = {g.name: d[keys[g.name]] if keys[g.name] in d else default_value(self.prog, g) for g in f.sp.a if keys[g.name] in d or g.has_default}
            elif f.properties is not None:
                mine = [k for k in d if k not in declared and (f.properties is True or re.search(f.properties, k))]
                if (set(mine) & err_locs) or (root_constraint and f.schema):
                    invalid.add(f.name)
                else:
                    provided.add(f.name)
                    values[f.name] = {k: d[k] for k in mine}
        todo = [v for v in self.P["validators"] if v["deps"] & provided]
        todo = [v for v in todo if not (v["deps"] & invalid)]
        log, errs = [], []
        while todo:
            v, todo = todo[0], todo[1:]
            log.append(v["name"])
            if v["fail"](values):
                for loc, msg in v["errs"]:
                    # "@name": yielded through get_alias(self).name, relocated to the external name
                    by_name = {f.name: f for f in spec.a}
                    loc = tuple(al(static_alias(spec, by_name[x[1:]])) if isinstance(x, str) and x.startswith("@") else x for x in loc)
                    if v.get("field"):
                        loc = (ext[v["field"]],)
                    errs.append((loc, msg))
                if v.get("discard"):
                    todo = [w for w in todo if not (w["deps"] & v["discard"])]
        return log, errs

    def body(self, ctx: Ctx) -> Optional[Failure]:
        from vf.sym import Gen

        d = Gen(ctx, self.prog, self.bounds, self.opts).json(self.prog.spec)
        ctx.witness = d
        ctx.run_phase()
        del self.LOG[:]
        tree = tree_state(self_of(self.method))
        real_errs = None
        try:
            self.method(d)
        except self.VE as e:
            real_errs = e.errors
        except Exception as e:
            return Failure("crash", type(e).__name__, witness=d, extra={"exc": type(e).__name__, "log": list(self.LOG)})
        log = list(self.LOG)
        if tree_state(self_of(self.method)) != tree:
            return Failure("compiled-method-mutated", witness=d)
        if not isinstance(d, dict):
            return None
        struct, _ = RefDeser(self.prog, self.opts).run(d)
        exp_log, verrs = self.model(d, struct)
        if real_errs is None:
            ctx.notes["tag:accepted"] = True
        if verrs:
            ctx.notes["tag:validator-failed"] = True
        if len(exp_log) < len(self.P["validators"]):
            ctx.notes["tag:validator-skipped"] = True
        if log != exp_log:
            return Failure("wrong-validators-run", witness=d, extra={"ran": log, "expected": exp_log})
        exp = sorted([(loc, "s:" + k) for loc, k in struct] + [(loc, "v:" + m) for loc, m in verrs], key=repr)
        if real_errs is None:
            if exp:
                return Failure("accepted-despite-errors", witness=d, extra={"expected": exp})
            return None
        got = sorted(
            [
                (tuple(e["loc"]), "v:" + e["err"] if e["err"] in self.vnames else "s:" + classify(e["err"], self.table))
                for e in real_errs
            ],
            key=repr,
        )
        if got != exp:
            return Failure("wrong-merged-errors", witness=d, extra={"real": real_errs, "expected": exp})
        return None


def make(job):
    return Inst(job)
