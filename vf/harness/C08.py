"""C08: options that are optimisations never change results (DESIGN.md 4/C08).
The oracle is the unoptimised *real* code: every check compares two real runs."""
from __future__ import annotations

import itertools
from typing import Optional

from vf import pools
from vf.engine import Ctx, Failure
from vf.harness.C04 import ser_kwargs
from vf.harness.common import api_kwargs, bounds_of, method_classes, program_of, ref_opts, self_of
from vf.harness.deser_e2e import has_obj, n_positions
from vf.specs import walk
from vf.sym import Gen, Val, containers, same, snapshot

FLAGS = ["any", "collections", "dataclasses", "enums", "tuple"]


def flagsets(tier):
    allsets = [dict(zip(FLAGS, bits)) for bits in itertools.product([False, True], repeat=5)]
    allsets = [fs for fs in allsets if any(fs.values())]
    if tier == "thorough":
        return allsets
    keep = [fs for fs in allsets if sum(fs.values()) == 1] + [dict.fromkeys(FLAGS, True)]
    keep.append({"any": False, "collections": False, "dataclasses": True, "enums": True, "tuple": True})
    return keep


def jobs(prop, tier, seed):
    out = []
    q = tier == "quick"
    for pid in pools.ids("data", tier):
        spec, _ = pools.get("data", pid)
        big = n_positions(spec) >= 8
        b = dict(depth=2, width=2, strlen=2, budget=1) if q else dict(depth=3, width=2, strlen=3, budget=2)
        bs = 25 if q else 120
        optsets = [{}] + ([{"additional_properties": True}] if has_obj(spec) else [])
        for o in optsets:
            out.append(dict(harness="C08", variant="nocopy", pool="data", pid=pid, opts=o, bounds=b, budget_s=bs))
        out.append(dict(harness="C08", variant="func", pool="data", pid=pid, opts={}, bounds=b, budget_s=bs))
        if any(s.k == "obj" and s.opt("kind") == "dataclass" for s in walk(spec)):
            out.append(dict(harness="C08", variant="ctor", pool="data", pid=pid, opts={}, bounds=b, budget_s=bs))
            out.append(dict(harness="C08", variant="depass", pool="data", pid=pid, opts={}, bounds=b, budget_s=bs))
    for pid in pools.ids("ser", tier):
        spec, _ = pools.get("ser", pid)
        b = dict(depth=2, width=2, strlen=2) if q else dict(depth=3, width=3, strlen=3)
        bs = 25 if q else 120
        out.append(dict(harness="C08", variant="checktype", pool="ser", pid=pid, opts={}, bounds=b, budget_s=bs))
        out.append(dict(harness="C08", variant="serfunc", pool="ser", pid=pid, opts={}, bounds=b, budget_s=bs))
        if any(s.k in ("obj", "enum") and s.opt("kind") != "typeddict" for s in walk(spec)):
            out.append(dict(harness="C08", variant="pt_types", pool="ser", pid=pid, opts={}, bounds=b, budget_s=bs))
        interesting = any(s.k in ("obj", "enum", "tuple", "vtuple", "any", "set", "fset", "seq", "map", "list") for s in walk(spec))
        if interesting:
            for fs in flagsets(tier):
                out.append(dict(harness="C08", variant="passthrough", pool="ser", pid=pid, opts={"flags": fs}, bounds=b, budget_s=bs))
            if any(s.k in ("tuple", "vtuple") for s in walk(spec)):
                # check_type + pass-through of tuples (TupleCheckOnlyMethod / CheckedTupleMethod)
                for fs in ({"tuple": True}, {"collections": True}):
                    out.append(dict(harness="C08", variant="passthrough", pool="ser", pid=pid, opts={"flags": fs, "check_type": True}, bounds=b, budget_s=bs))
                    if any(s.k == "tuple" for s in walk(spec)):
                        # ... and what check_type is for: an ill-typed value (wrong arity) is refused
                        # the same way with and without the pass-through optimisation
                        out.append(dict(harness="C08", variant="passthrough", pool="ser", pid=pid, opts={"flags": fs, "check_type": True, "ill_typed": True}, bounds=dict(b, bad_arity=True), budget_s=bs))
    return out


def complete(default, x):
    """what json.dumps(default=serialization_default()) would see"""
    if x is None or isinstance(x, (bool, int, float, str)):
        return x
    if type(x) is list or type(x) is tuple:
        return [complete(default, v) for v in x]
    if type(x) is dict:
        # keys too: a passed-through type (an Enum key under enums=True) is left untouched wherever it is
        return {complete(default, k): complete(default, v) for k, v in x.items()}
    return complete(default, default(x))


class Base:
    relax = ()
    assumptions: list = []

    def outcome(self, fn, d):
        try:
            return ("ok", fn(d))
        except self.VE as e:
            return ("err", e.errors)

    def same_outcome(self, a, b) -> bool:
        if a[0] != b[0]:
            return False
        return same(a[1], b[1]) if a[0] == "ok" else a[1] == b[1]


class NoCopy(Base):
    def __init__(self, job):
        from apischema import ValidationError, deserialization_method

        self.job = job
        self.prog = program_of(job)
        kw = api_kwargs(job)
        self.m_copy = deserialization_method(self.prog.tp, no_copy=False, **kw)
        self.m_nocopy = deserialization_method(self.prog.tp, no_copy=True, **kw)
        self.VE = ValidationError
        self.opts = ref_opts(job)
        self.bounds = bounds_of(job)
        self.functions = sorted(set(method_classes(self_of(self.m_copy)) + method_classes(self_of(self.m_nocopy))))
        self.expect_tags = ["ok", "err"]
        from vf.harness.deser_e2e import accepts_all

        if accepts_all(self.prog.spec):
            self.expect_tags = ["ok"]

    def body(self, ctx: Ctx) -> Optional[Failure]:
        d = Gen(ctx, self.prog, self.bounds, self.opts).json(self.prog.spec)
        ctx.witness = d
        snap = snapshot(d)
        ctx.run_phase()
        a = self.outcome(self.m_copy, d)
        if snapshot(d) != snap:
            return Failure("input-modified(no_copy=False)", witness=d)
        b = self.outcome(self.m_nocopy, d)
        if snapshot(d) != snap:
            return Failure("input-modified(no_copy=True)", witness=d)
        ctx.notes["tag:" + a[0]] = True
        if not self.same_outcome(a, b):
            return Failure("no_copy-changes-result", witness=d, extra={"copy": a, "no_copy": b})
        if a[0] == "ok":
            shared = set(containers(a[1])) & set(containers(d))
            if shared:
                return Failure("shares-container-with-input(no_copy=False)", witness=d, extra={"result": a[1]})
        return None


class Func(Base):
    """deserialize(T, d) vs the precomputed deserialization_method(T)(d)"""

    def __init__(self, job):
        from apischema import ValidationError, deserialization_method, deserialize

        self.job = job
        self.prog = program_of(job)
        self.m = deserialization_method(self.prog.tp)
        self.deserialize = deserialize
        try:
            deserialize(self.prog.tp, None)  # warm the factory cache outside tracing
        except Exception:
            pass
        self.VE = ValidationError
        self.opts = ref_opts(job)
        self.bounds = bounds_of(job)
        self.functions = method_classes(self_of(self.m)) + ["apischema.deserialization.deserialize", "apischema.deserialization.deserialization_method"]
        self.expect_tags = ["ok"]

    def body(self, ctx: Ctx):
        d = Gen(ctx, self.prog, self.bounds, self.opts).json(self.prog.spec)
        ctx.witness = d
        ctx.run_phase()
        a = self.outcome(self.m, d)
        b = self.outcome(lambda x: self.deserialize(self.prog.tp, x), d)
        ctx.notes["tag:" + a[0]] = True
        if not self.same_outcome(a, b):
            return Failure("function-vs-method", witness=d, extra={"method": a, "function": b})
        return None


class Ctor(Base):
    """settings.deserialization.override_dataclass_constructors False vs True"""

    def __init__(self, job):
        from apischema import ValidationError, deserialization_method, settings

        self.job = job
        self.prog = program_of(job)
        settings.deserialization.override_dataclass_constructors = False
        self.m_off = deserialization_method(self.prog.tp)
        settings.deserialization.override_dataclass_constructors = True
        self.m_on = deserialization_method(self.prog.tp)
        self.m_on_copy = deserialization_method(self.prog.tp, no_copy=False)
        self.m_on_nocopy = deserialization_method(self.prog.tp, no_copy=True)
        settings.deserialization.override_dataclass_constructors = False
        self.VE = ValidationError
        self.opts = ref_opts(job)
        self.bounds = bounds_of(job)
        self.functions = sorted(set(method_classes(self_of(self.m_off)) + method_classes(self_of(self.m_on)) + method_classes(self_of(self.m_on_copy))))
        self.expect_tags = ["ok"]

    def body(self, ctx: Ctx):
        d = Gen(ctx, self.prog, self.bounds, self.opts).json(self.prog.spec)
        ctx.witness = d
        snap = snapshot(d)
        ctx.run_phase()
        a = self.outcome(self.m_off, d)
        b = self.outcome(self.m_on, d)
        ctx.notes["tag:" + a[0]] = True
        if snapshot(d) != snap:
            return Failure("input-modified(override_dataclass_constructors)", witness=d)
        if not self.same_outcome(a, b):
            return Failure("override_dataclass_constructors-changes-result", witness=d, extra={"off": a, "on": b})
        # the purity / sharing clauses hold with the overridden constructors too
        c = self.outcome(self.m_on_nocopy, d)
        if snapshot(d) != snap:
            return Failure("input-modified(override_dataclass_constructors, no_copy=True)", witness=d)
        e = self.outcome(self.m_on_copy, d)
        if snapshot(d) != snap:
            return Failure("input-modified(override_dataclass_constructors, no_copy=False)", witness=d)
        if not self.same_outcome(a, c) or not self.same_outcome(a, e):
            return Failure("override_dataclass_constructors-changes-result", witness=d, extra={"off": a, "on,no_copy": c, "on,copy": e})
        if e[0] == "ok" and set(containers(e[1])) & set(containers(d)):
            return Failure("shares-container-with-input(override_dataclass_constructors, no_copy=False)", witness=d, extra={"result": e[1]})
        return None


class DePass(Base):
    """deserialization pass_through of the program's own classes: JSON data is never an
    instance of them, results must be identical"""

    def __init__(self, job):
        from apischema import ValidationError, deserialization_method

        self.job = job
        self.prog = program_of(job)
        classes = tuple(v for v in vars(self.prog.module).values() if isinstance(v, type) and v.__module__ == self.prog.module.__name__)
        self.m = deserialization_method(self.prog.tp)
        self.m_pt = deserialization_method(self.prog.tp, pass_through=classes)
        self.VE = ValidationError
        self.opts = ref_opts(job)
        self.bounds = bounds_of(job)
        self.functions = sorted(set(method_classes(self_of(self.m)) + method_classes(self_of(self.m_pt))))
        self.expect_tags = ["ok"]

    def body(self, ctx: Ctx):
        d = Gen(ctx, self.prog, self.bounds, self.opts).json(self.prog.spec)
        ctx.witness = d
        ctx.run_phase()
        a = self.outcome(self.m, d)
        b = self.outcome(self.m_pt, d)
        ctx.notes["tag:" + a[0]] = True
        if not self.same_outcome(a, b):
            return Failure("pass_through-changes-result", witness=d, extra={"plain": a, "pass_through": b})
        return None


class SerPair(Base):
    def __init__(self, job):
        from apischema import PassThroughOptions, serialization_default, serialization_method, serialize

        self.job = job
        self.variant = job["variant"]
        self.prog = program_of(job)
        self.plain = serialization_method(self.prog.tp)
        if self.variant == "checktype":
            self.other = serialization_method(self.prog.tp, check_type=True)
        elif self.variant == "serfunc":
            serialize(self.prog.tp, None) if False else None
            self.other = lambda v: serialize(self.prog.tp, v)
            try:
                from apischema.serialization import serialization_method_factory  # noqa: F401  (warm)
            except Exception:
                pass
        else:
            self.pt = PassThroughOptions(**job["opts"]["flags"])
            ct = {"check_type": True} if job["opts"].get("check_type") else {}
            self.other = serialization_method(self.prog.tp, pass_through=self.pt, **ct)
            if job["opts"].get("ill_typed"):
                self.plain = serialization_method(self.prog.tp, check_type=True)
            self.default = serialization_default()
        self.bounds = bounds_of(job)
        self.functions = sorted(
            set(method_classes(self_of(self.plain)) + method_classes(self_of(self.other)) + ["apischema.serialization.serialization_default"])
        )
        self.expect_tags = ["compared"]

    def complete(self, x):
        return complete(self.default, x)

    def body(self, ctx: Ctx):
        v = Val(ctx, self.prog, self.bounds).val(self.prog.spec)
        ctx.witness = v
        ctx.run_phase()
        if self.job["opts"].get("ill_typed"):
            try:
                a = self.plain(v)
            except TypeError:
                ctx.notes["tag:compared"] = True
                ctx.notes["tag:refused"] = True
                try:
                    b = self.other(v)
                except TypeError:
                    return None
                except Exception as e:
                    return Failure("ill-typed-value-refused-differently-under-pass-through", type(e).__name__, witness=v, extra={"exc": type(e).__name__})
                return Failure("ill-typed-value-accepted-under-pass-through", witness=v, extra={"other": b})
        else:
            a = self.plain(v)
        try:
            b = self.other(v)
        except Exception as e:
            return Failure(f"{self.variant}-raises", type(e).__name__, witness=v, extra={"exc": type(e).__name__})
        ctx.notes["tag:compared"] = True
        if self.variant == "passthrough":
            try:
                b = self.complete(b)
            except Exception as e:
                return Failure("serialization_default-raises", type(e).__name__, witness=v, extra={"exc": type(e).__name__})
        if not same(a, b):
            return Failure(f"{self.variant}-changes-result", witness=v, extra={"plain": a, "other": b})
        return None


class PtTypes(Base):
    """PassThroughOptions(types=...) vs none, compiled in both orders in the same process:
    neither may leak into the other through a cache"""

    def __init__(self, job):
        import apischema.cache
        from apischema import PassThroughOptions, serialization_default, serialization_method

        self.job = job
        self.prog = program_of(job)
        mod = self.prog.module
        self.classes = tuple(v for v in vars(mod).values() if isinstance(v, type) and v.__module__ == mod.__name__ and not issubclass(v, dict))
        pto = PassThroughOptions(types=self.classes)
        apischema.cache.reset()
        self.plain1 = serialization_method(self.prog.tp)
        self.typed1 = serialization_method(self.prog.tp, pass_through=pto)
        apischema.cache.reset()
        self.typed2 = serialization_method(self.prog.tp, pass_through=PassThroughOptions(types=self.classes))
        self.plain2 = serialization_method(self.prog.tp)
        self.default = serialization_default()
        self.bounds = bounds_of(job)
        self.functions = sorted(set(method_classes(self_of(self.plain1)) + method_classes(self_of(self.typed1)) + ["apischema.serialization.serialization_method_factory (cache key)"]))
        self.expect_tags = ["compared"]

    def body(self, ctx: Ctx):
        v = Val(ctx, self.prog, self.bounds).val(self.prog.spec)
        ctx.witness = v
        ctx.run_phase()
        a, b = self.plain1(v), self.plain2(v)
        ctx.notes["tag:compared"] = True
        if not same(a, b):
            return Failure("plain-result-depends-on-compile-order", witness=v, extra={"first": a, "second": b})
        t1, t2 = self.typed1(v), self.typed2(v)
        root = self.prog.spec
        named_root = root.k in ("obj", "enum") and not root.opt("texpr")  # types hold classes, not generic aliases
        if named_root and isinstance(v, self.classes) and (t1 is not v or t2 is not v):
            return Failure("types-pass-through-ignored", witness=v, extra={"first": t1, "second": t2})
        if not same(complete(self.default, t1), a) or not same(complete(self.default, t2), a):
            return Failure("pass_through-types-changes-result", witness=v, extra={"plain": a, "t1": t1, "t2": t2})
        return None


def make(job):
    v = job["variant"]
    if v == "pt_types":
        return PtTypes(job)
    return {"nocopy": NoCopy, "func": Func, "ctor": Ctor, "depass": DePass}.get(v, SerPair)(job)
