"""C16: field order is a deterministic function of declaration and order() specs
(DESIGN.md 4/C16).

variants:
  unit  - sort_by_order() on n elements whose ordering spec is forked among
          none | order(v) | after(x) | before(x), with class-level overrides (inheritance)
  sites - classes generated from the same specs: serialize keys, properties of both JSON
          schemas and GraphQL field order all equal the reference permutation
Honest scope: order values are hashed by the code (groups[order]); they are enumerated
from the documented finite set by forks, not symbolic."""
from __future__ import annotations

from typing import List, Optional

from vf.engine import Assume, Ctx, Failure

VALUES = [-1, 0, 1, 999]


def place(names: List[str], spec: dict) -> List[str]:
    """documented algorithm: ascending order value (0 by default), declaration order within
    a value; after(x) / before(x) elements attached directly after / before x together with
    their own attached elements"""
    groups = {}
    after = {n: [] for n in names}
    before = {n: [] for n in names}
    for n in names:
        s = spec.get(n)
        if s is None:
            groups.setdefault(0, []).append(n)
        elif s[0] == "order":
            groups.setdefault(s[1], []).append(n)
        elif s[0] == "after":
            after[s[1]].append(n)
        else:
            before[s[1]].append(n)
    out: List[str] = []

    def emit(n):
        for b in before[n]:
            emit(b)
        out.append(n)
        for a in after[n]:
            emit(a)

    for v in sorted(groups):
        for n in groups[v]:
            emit(n)
    return out


def acyclic(names, spec) -> bool:
    """every element is reachable from an element with an order value"""
    for n in names:
        seen = set()
        cur = n
        while spec.get(cur) is not None and spec[cur][0] in ("after", "before"):
            if cur in seen:
                return False
            seen.add(cur)
            cur = spec[cur][1]
    return True


def fork_spec(ctx: Ctx, names: List[str], i: int):
    n = names[i]
    others = [x for x in names if x != n]
    opts = [None] + [("order", v) for v in VALUES] + [("after", x) for x in others] + [("before", x) for x in others]
    return ctx.pick(opts, "ord")


def jobs(prop, tier, seed):
    out = []
    sizes = [2, 3] if tier == "quick" else [2, 3, 4]
    for n in sizes:
        for ov in ("none", "mapping", "sequence", "inherited"):
            out.append(dict(harness="C16", variant="unit", pid=f"unit(n={n},{ov})", n=n, override=ov, opts={}, bounds={}, budget_s=90 if tier == "quick" else 900))
    for n_fields, n_methods in ([(2, 1), (3, 0)] if tier == "quick" else [(2, 1), (3, 0), (2, 2), (3, 1)]):
        for ov in ("none", "mapping"):
            out.append(dict(harness="C16", variant="sites", pid=f"sites(f={n_fields},m={n_methods},{ov})", nf=n_fields, nm=n_methods, override=ov, opts={}, bounds={}, budget_s=150 if tier == "quick" else 900))
    # methods that are GraphQL resolvers and serialized methods at once: the GraphQL type follows too
    for n_fields, n_methods in ([(2, 1)] if tier == "quick" else [(2, 1), (2, 2)]):
        out.append(dict(harness="C16", variant="sites", pid=f"sites(f={n_fields},m={n_methods},resolver)", nf=n_fields, nm=n_methods, override="resolver", opts={}, bounds={}, budget_s=150 if tier == "quick" else 900))
    # serialized methods declared at two levels of a hierarchy: those of the base come first
    for n_fields, n_methods in ([(1, 2)] if tier == "quick" else [(1, 2), (2, 2), (1, 3)]):
        out.append(dict(harness="C16", variant="sites", pid=f"sites(f={n_fields},m={n_methods},hier)", nf=n_fields, nm=n_methods, override="hier", opts={}, bounds={}, budget_s=150 if tier == "quick" else 900))
    return out


class Elt:
    def __init__(self, name, ordering):
        self.name = name
        self.ordering = ordering


def to_ordering(s):
    from apischema import order

    if s is None:
        return None
    if s[0] == "order":
        return order(s[1])
    return order(**{s[0]: s[1]})


class Unit:
    def __init__(self, job):
        from apischema import order
        from apischema.ordering import sort_by_order

        self.method_note = 'enumeration: every ordering spec is a fork (order values are hashed by the code); no symbolic value'
        self.job = job
        self.n = job["n"]
        self.names = [f"e{i}" for i in range(self.n)]
        self.sort = sort_by_order
        ov = job["override"]
        e = self.names

        class NoOv:
            pass

        self.cls = NoOv
        self.over = {}
        if ov == "mapping":
            self.over = {e[-1]: ("order", -1)}
            self.cls = order({e[-1]: order(-1)})(type("OvMap", (), {}))
        elif ov == "sequence":
            seq = list(reversed(e))[:2]
            self.over = {seq[1]: ("after", seq[0])}
            self.cls = order(seq)(type("OvSeq", (), {}))
        elif ov == "inherited":
            base = order({e[0]: order(999), e[-1]: order(-1)})(type("OvBase", (), {}))
            self.over = {e[0]: ("before", e[-1]), e[-1]: ("order", -1)}
            self.cls = order({e[0]: order(before=e[-1])})(type("OvChild", (base,), {}))
        self.functions = ["apischema.ordering.sort_by_order", "apischema.ordering.get_order_overriding"]
        self.expect_tags = ["checked"]
        self.assumptions = ["cyclic after / before chains: refused or kept whole (no placement to compare)", "order values from {-1, 0, 1, 999}"]
        self.relax = ()

    def body(self, ctx: Ctx) -> Optional[Failure]:
        spec = {n: fork_spec(ctx, self.names, i) for i, n in enumerate(self.names)}
        eff = dict(spec)
        eff.update(self.over)
        ctx.witness = {k: list(v) if v else None for k, v in spec.items()}
        ctx.run_phase()
        elts = [Elt(n, to_ordering(spec[n])) for n in self.names]
        if not acyclic(self.names, eff):
            # a cyclic specification has no placement: refusing it is fine, losing fields is not
            ctx.notes["tag:checked"] = True
            try:
                res = [x.name for x in self.sort(self.cls, elts, lambda x: x.name, lambda x: x.ordering)]
            except (ValueError, TypeError):
                return None
            if sorted(res) != sorted(self.names):
                return Failure("field-lost-or-duplicated", witness=ctx.witness, extra={"result": res, "cyclic": True})
            return None
        res = [x.name for x in self.sort(self.cls, elts, lambda x: x.name, lambda x: x.ordering)]
        ctx.notes["tag:checked"] = True
        if sorted(res) != sorted(self.names):
            return Failure("field-lost-or-duplicated", witness=ctx.witness, extra={"result": res})
        exp = place(self.names, eff)
        if res != exp:
            return Failure("wrong-order", witness=ctx.witness, extra={"result": res, "expected": exp})
        return None


class Sites:
    """real classes: the four call sites must produce the same permutation"""

    def __init__(self, job):
        self.method_note = 'enumeration, executed concretely under NoTracing: call-site comparison on generated classes'
        self.job = job
        self.nf, self.nm = job["nf"], job["nm"]
        self.names = [f"f{i}" for i in range(self.nf)] + [f"m{i}" for i in range(self.nm)]
        self.functions = [
            "apischema.ordering.sort_by_order",
            "apischema.serialization.SerializationMethodVisitor.object (call site)",
            "apischema.json_schema.schema.SchemaBuilder.object (call site)",
            "apischema.graphql.schema.merge_fields (call site)",
        ]
        self.expect_tags = ["checked"]
        self.assumptions = ["all values concrete after forks: executed under NoTracing (enumeration, flagged)"]
        self.relax = ()
        self.count = 0

    def source(self, spec, over):
        def md(s):
            if s is None:
                return None
            if s[0] == "order":
                return f"order({s[1]})"
            return f"order({s[0]}={s[1]!r})"

        lines = [
            "from dataclasses import dataclass, field",
            "from apischema import order, serialized",
            "from apischema.graphql import resolver",
        ]
        deco = "resolver" if self.job["override"] == "resolver" else "serialized"
        extra = ", serialized=True" if deco == "resolver" else ""
        hier = self.job["override"] == "hier"
        if hier:  # the first method lives in a base class
            lines += ["@dataclass", "class B:"]
            m = md(spec["m0"])
            lines.append(f"    @serialized('M0', order={m})" if m else "    @serialized('M0')")
            lines += ["    def m0(self) -> int:", "        return 10"]
        if over:
            lines.append("@order({" + ", ".join(f"{k!r}: {md(v)}" for k, v in over.items()) + "})")
        lines += ["@dataclass", "class C(B):" if hier else "class C:"]
        for i in range(self.nf):
            n = f"f{i}"
            m = md(spec[n])
            lines.append(f"    {n}: int = " + (f"field(default={i}, metadata={m})" if m else str(i)))
        for i in range(1 if hier else 0, self.nm):
            n = f"m{i}"
            m = md(spec[n])
            lines.append(f"    @{deco}('M{i}', order={m}{extra})" if m else f"    @{deco}('M{i}'{extra})")
            lines.append(f"    def {n}(self) -> int:")
            lines.append(f"        return {10 + i}")
        return "\n".join(lines) + "\n"

    def body(self, ctx: Ctx):
        from crosshair.tracers import NoTracing

        spec = {n: fork_spec(ctx, self.names, i) for i, n in enumerate(self.names)}
        over = {}
        if self.job["override"] == "mapping":
            over = {self.names[-1]: ("order", -1), self.names[0]: ("after", self.names[1])}
        eff = dict(spec)
        eff.update(over)
        if not acyclic(self.names, eff):
            raise Assume("cyclic ordering specification")
        ctx.witness = {k: list(v) if v else None for k, v in spec.items()}
        ctx.run_phase()
        exp = place(self.names, eff)
        ctx.notes["tag:checked"] = True
        if ctx.concrete is not None:
            return self.concrete(spec, over, exp)
        with NoTracing():
            return self.concrete(spec, over, exp)

    def concrete(self, spec, over, exp):
        import sys
        import types

        from apischema import serialize
        from apischema.json_schema import deserialization_schema, serialization_schema

        self.count += 1
        mod = types.ModuleType(f"vf_c16_{self.count}")
        sys.modules[mod.__name__] = mod
        exec(self.source(spec, over), mod.__dict__)
        C = mod.C
        wit = {k: list(v) if v else None for k, v in spec.items()}
        try:
            ser = list(serialize(C, C()))
            sschema = list(serialization_schema(C).get("properties", {}))
            dschema = list(deserialization_schema(C).get("properties", {}))
        finally:
            del sys.modules[mod.__name__]
        # deserialization has no serialized method: an anchor that is absent counts as no spec
        fields = [n for n in self.names if n.startswith("f")]
        eff = {**spec, **over}
        dspec = {n: (None if eff.get(n) and eff[n][0] in ("after", "before") and eff[n][1] not in fields else eff.get(n)) for n in fields}
        dexp = place(fields, dspec)
        exp = [n if n.startswith("f") else "M" + n[1:] for n in exp]  # methods are emitted under their alias
        if ser != exp:
            return Failure("serialize-key-order", witness=wit, extra={"result": ser, "expected": exp})
        if sschema != exp:
            return Failure("serialization-schema-property-order", witness=wit, extra={"result": sschema, "expected": exp})
        if sorted(dschema) != sorted(fields):
            return Failure("deserialization-schema-loses-field", witness=wit, extra={"result": dschema, "fields": fields})
        if dschema != dexp:
            return Failure("deserialization-schema-property-order", witness=wit, extra={"result": dschema, "expected": dexp})
        if self.nm == 0:
            from apischema.json_schema import definitions_schema

            sys.modules[mod.__name__] = mod
            try:
                merged = definitions_schema(deserialization=[C], serialization=[C], all_refs=True)
            finally:
                del sys.modules[mod.__name__]
            mprops = list(merged.get("C", {}).get("properties", {}))
            if mprops != exp:
                return Failure("definitions-schema-property-order", witness=wit, extra={"result": mprops, "expected": exp})
        if self.nm == 0 or self.job["override"] == "resolver":
            import graphql

            from apischema.graphql import graphql_schema

            exec("def root() -> C:\n    return C()\n", mod.__dict__)
            gs = graphql_schema(query=[mod.root])
            gf = list(gs.type_map["C"].fields)
            if gf != exp:
                return Failure("graphql-field-order", witness=wit, extra={"result": gf, "expected": exp})
        return None


def make(job):
    return Unit(job) if job["variant"] == "unit" else Sites(job)
