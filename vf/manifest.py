"""Regenerates /verif/MANIFEST.json from one table (python -m vf.manifest)."""
import json
import os

ROOT = os.path.dirname(os.path.dirname(os.path.abspath(__file__)))

TECH = "bounded symbolic execution of the real code (CrossHair/z3), exhaustion of the path tree"

CHECKS = {
    "C01": dict(
        text="For each program of the generated pool and option set, every JSON datum within the stated bounds "
        "(kinds forked per position under a deviation budget; int / float / str / bool leaves symbolic) is run through the "
        "compiled deserialization method tree of the current source; accept/reject verdict and typed image are compared "
        "with an independent reference interpreter of the documented data model. A discharged job means the verdict "
        "holds for every datum in its bounds, decided by z3 per path; inconclusive jobs are reported, never counted as passes.",
        note="Trusted: CrossHair's models of builtins, z3, the reference interpreter (vf/oracle/deser.py). Floats modelled as "
        "reals + NaN/inf. Keys and literal candidates from finite pools. Programs quantified by a finite pool.",
        design="4/C01",
    ),
    "C02": dict(
        text="Same exploration as C01 on rejecting paths: the (loc, kind) multiset of ValidationError.errors must equal the "
        "reference error set, the list must be in deterministic pre-order, and a second call must give the same list. "
        "Deviation budget >= 2 puts simultaneous violations at distinct paths inside the explored space.",
        note="Messages are classified through settings.errors templates (configuration); expected-type names are not compared. "
        "Key error hides the value error of the same mapping item (unspecified, not demanded).",
        design="4/C02",
    ),
    "C03": dict(
        text="The compiled method tree is executed on JSON data extended with non-JSON kinds (bytes, tuple, str/int/dict "
        "subclasses, non-string and mixed keys, inf/nan, 10**400, set, object) under a deviation budget, with coerce on/off "
        "and option sets; asserted per path: the call returns or raises ValidationError (any other exception is a violation), "
        "the input structure is unchanged, user classes are unchanged, err.errors is computable and well-typed. The "
        "coercion kernel coerce(cls, data) is also driven as a unit for every primitive cls and data kind.",
        note="Under coerce=True str / float leaves come from finite pools and ints range over [-99, 99] ([-999, 999] "
        "thorough) because int(str), str(int), str(float) and dict lookups realise; this part is enumeration by forks. "
        "Exotic kinds are concrete representatives. User converters/validators that raise are outside the statement. Non-string data keys: 1, None, tuple pairs that cannot be ordered, bytes; `loc` elements must be JSON-serialisable.",
        design="4/C03",
    ),
    "C04": dict(
        text="For each program and option set (exclude_none / exclude_defaults / exclude_unset / aliaser / check_type / "
        "fall_back_on_any / additional_properties), every well-typed value within bounds (leaves symbolic; Optional, Union "
        "alternative, Undefined, enum member, lengths, presence of defaulted arguments by forks) is serialized by the compiled "
        "method tree; the output must consist of JSON classes only and equal, keys in order, the image computed by an "
        "independent reference interpreter of the documented omission and aliasing rules; serialize(v) == serialize(type(v), v).",
        note="Any-typed positions and undeclared TypedDict keys hold concrete representatives; AnyMethod's factory argument is "
        "wrapped so that proxy classes are looked up as the Python type they stand for.",
        design="4/C04",
    ),
    "C06": dict(
        text="Differential check between two independent visitors of apischema: for each program / option set the "
        "deserialization schema is generated concretely by the real builder, and every JSON datum within bounds (as in C01) "
        "is judged both by the compiled deserialization method (executed symbolically) and by a JSON Schema evaluator "
        "running on the same symbolic datum; the two verdicts must be equal on the common semantic domain named in the "
        "property. The evaluator is itself validated on every run against the jsonschema library on realised triples.",
        note="Schema generation is concrete per program (bound on programs). Domain exclusions: integer-valued floats at "
        "integer positions, NaN under numeric keywords, multipleOf on floats, duplicates at set positions, fall_back_on_default "
        "metadata. Trusted: vf/oracle/jsvalid.py (cross-checked), CrossHair, z3.",
        design="4/C06",
    ),
    "C07": dict(
        text="For each program and each global setting combination (settings.serialization.exclude_defaults / exclude_none, "
        "aliaser, additional_properties) the serialization schema is generated concretely by the real builder; every "
        "well-typed value within bounds (leaves symbolic, constraints of the type assumed) is serialized by the compiled "
        "method tree under CrossHair and the output is judged by the JSON Schema evaluator: it must validate (which "
        "includes: every emitted key declared or allowed, every required key emitted).",
        note="Classes with unset-tracking are excluded as the statement says. Evaluator cross-checked against jsonschema on "
        "realised outputs. Settings are set once per job in a private process.",
        design="4/C07",
    ),
    "C05": dict(
        text="Value direction: for every program of the bijective fragment and every well-typed value within bounds "
        "(leaves symbolic), deserialize(T, serialize(T, v)) is executed symbolically end to end and must give back a value "
        "structurally equal to v with the same runtime classes. Datum direction: for every accepted datum within bounds, "
        "serialize(T, deserialize(T, d)) must equal the reference completion of d with defaults and re-deserialize to an "
        "equal value. Under identity / prefix / camelCase aliasers and additional_properties.",
        note="The serialized data goes through a structural JSON normalisation (str / int mixin Enum members become plain "
        "values); json.dumps/loads itself is inserted on replay only (C boundary). Discriminated unions: value direction only. "
        "Standard-library converted types (UUID, date, "
        "datetime, time, Decimal, bytes, Path, ip addresses, Pattern, deque) are run on concrete value pools selected by "
        "forks and labelled realised: their C parsers reject proxies, so that part is enumeration, not a solver verdict.",
        design="4/C05",
    ),
    "C08": dict(
        text="Relational check with the unoptimised real code as oracle: for every program and every symbolic datum / value "
        "within bounds, pairs of real runs must agree (results with runtime classes, and error lists): no_copy False/True "
        "(plus: no container shared with the input when False, input never modified), override_dataclass_constructors "
        "off/on, deserialize() vs deserialization_method(), serialize() vs serialization_method(), check_type on well-typed "
        "values, PassThroughOptions flag sets completed by serialization_default, deserialization pass_through, and "
        "PassThroughOptions(types=...) compiled before/after the plain method in the same process.",
        note="Both members of each pair are compiled concretely per program; flag sets: singles + all + one mixed in quick, "
        "all 31 non-empty in thorough.",
        design="4/C08",
    ),
    "C13": dict(
        text="Relational check whose reference is the real code: for each union program (by-type, sequential, Optional, "
        "nested, constrained, with unsupported members, discriminated by default / explicit / partial mapping, by Literal "
        "field, inherited discriminator, inside a list, TaggedUnion) and every symbolic datum within bounds, the compiled "
        "union method must accept iff some alternative's own compiled method accepts, return a value equal to the first "
        "accepting alternative's, and on rejection report exactly the merged errors of the alternatives; the discriminated "
        "method must agree with the alternative selected by the key; with and without coercion. Serialization: equal to "
        "the first alternative whose class matches, discriminator key emitted, value round-trips.",
        note="Under coercion str/float leaves come from finite pools (C03 note). Alternatives are flattened as typing does.",
        design="4/C13",
    ),
    "C14": dict(
        text="Two real runs per datum, related by a reference normaliser: for union-free programs "
        "deserialize(T, d, coerce=True) must equal (verdict and value) the strict deserialize(T, norm_T(d)) where norm_T "
        "applies exactly the documented conversions at primitive positions (int()/float()/str() between strings and "
        "numbers, the 14-word case-insensitive boolean table, int to bool, '' to None); for all programs strict "
        "acceptance implies coerced acceptance, with an equal result when union-free. Custom coercers returning right- "
        "and wrong-typed results: the result is still type-checked.",
        note="Under coercion str and float leaves come from finite pools (boolean words in mixed case, numeric strings, "
        "whitespace, '', fullwidth digit) and ints range over [-99, 99]: int(str), str(int) and dict lookups realise. "
        "Programs with fall_back_on_default metadata are excluded.",
        design="4/C14",
    ),
    "C10": dict(
        text="Object types whose validators (dependencies direct, through methods and properties, field= with implicit "
        "discard, explicit discard of unrelated fields, raise vs yield with paths and get_alias, inheritance, all-default "
        "dependencies) append their name to a log and fail when a symbolic field value crosses a threshold. For every "
        "datum within bounds (each field absent / valid / invalid, extra keys) the call log must equal the reference "
        "run / skip / discard model in declaration order, the merged errors must equal structural errors plus validator "
        "errors under the right aliases, the call must return iff there is no error, and it must terminate "
        "(RecursionError or any other exception is a violation).",
        note="The reference dependency sets are written by hand from the documentation, independently of the AST finder. "
        "Programs are a fixed family of 6 classes x 3 option sets; validators only read fields.",
        design="4/C10",
    ),
    "C15": dict(
        text="with_fields_set dataclasses (plain with default_as_set, decorated child of an undecorated base, undecorated "
        "child of a decorated base, InitVar + init=False + __post_init__) are created by deserialize (key presence "
        "symbolic), keyword or positional construction, then driven through every sequence of <= 2 (quick) / 3 (thorough) "
        "operations among set_fields, set_fields(overwrite), unset_fields, attribute assignment, apischema.dataclasses."
        "replace on every field; after each step fields_set() must equal the set-algebra model, serialize must emit "
        "exactly the set fields and exclude_unset=False all of them, with the current values.",
        note="Operation kinds and field indices are forked (enumerated); values and key presence are symbolic. The set of an "
        "undecorated child is only required to contain the model set (the statement does not pin it).",
        design="4/C15",
    ),
    "C16": dict(
        text="Unit: apischema.ordering.sort_by_order on n <= 3 (quick) / 4 (thorough) elements whose ordering spec is "
        "forked among none, order(v) with v in {-1, 0, 1, 999}, after(x), before(x) for every other x, under no / mapping "
        "/ sequence / inherited class-level overrides; result must be a permutation (nothing lost or duplicated) equal to "
        "the documented placement algorithm. Call sites: for classes generated from the same specs, key order of "
        "serialize, properties order of both JSON schemas and GraphQL field order equal the reference permutation.",
        note="Every dimension here is a program: order values are hashed by the code, so the space is enumerated by forks; "
        "the call-site variant runs concretely under NoTracing. Cyclic after/before chains are assumed away.",
        design="4/C16",
        technique="bounded exhaustive enumeration driven by the CrossHair fork tree (no symbolic value): stated as such",
    ),
    "C18": dict(
        text="For every program and target version (draft 2019-09, draft-07, OpenAPI 3.1, OpenAPI 3.0) the 2020-12 schema and "
        "the converted schema are both generated concretely by the real builder (including the self-referential "
        "LazyConversion applied at every level and, for OpenAPI, definitions_schema for the components); every JSON datum "
        "within bounds is judged by the evaluator under 2020-12 rules on the former and under the target dialect's own "
        "rules on the latter (array-form items / additionalItems, dependencies, $ref siblings ignored in draft-07, "
        "nullable): the verdicts must be equal. OpenAPI 3.0 is compared with the 2020-12 schema minus the keywords it "
        "drops explicitly. Concrete side condition per job: only the target's vocabulary and reference prefix at every "
        "nesting level, $schema names the dialect.",
        note="Evaluator cross-checked against jsonschema's Draft201909 / Draft7 validators on realised instances. The "
        "vocabulary walk is concrete (flagged). Domain exclusions as C06.",
        design="4/C18",
    ),
    "C11": dict(
        text="Object types whose field names / aliases are snake_case, camelCase, keyword-like and $-prefixed, under class "
        "aliasers (upper, prefix) with override=False exemptions, nested and flattened, and dynamic aliasers (identity, "
        "to_camel_case, custom prefix). ext(f) = aliaser(class_aliaser(alias or name)) is computed with the user's own "
        "functions. Symbolic: data whose keys range over ext and every confusable name (raw name, raw alias, class-aliased "
        "only, dynamically aliased only) - deserialize must consume exactly ext keys and report the others as unexpected / "
        "the field as missing at loc ext (C01 + C02 assertions); serialize of symbolic values must emit exactly ext keys "
        "(C04 assertions). Validator-yielded aliases are covered by C10's aliased programs.",
        note="properties / required / dependentRequired of both JSON schemas and GraphQL output field names are concrete "
        "side conditions per program (no symbolic input; flagged in evidence). Name pool is concrete.",
        design="4/C11",
    ),
    "C12": dict(
        text="Commuting squares with the real code on both sides: for conversion scenarios (registered pair, chain, several "
        "deserializers in registration order, catch_value_error converter, dynamic conversion, field-level conversion, "
        "inherited serializer, generic conversion, identity bypass of a registered conversion) x wrappers (plain, List, "
        "Optional, Dict, tuple element, union member, dataclass field), every symbolic datum within bounds must give "
        "deserialize(T, d) == f(deserialize(S, d)) and be rejected iff S rejects it (or f raises ValueError under "
        "catch_value_error, reported as ValidationError); every symbolic value must give serialize(T, v) == "
        "serialize(U, g(v)).",
        note="Schemas of T vs S / U and the locality rule (a dynamic conversion does not reach the fields of nested "
        "objects) are concrete side conditions per scenario. Standard-library converters are covered by C05 / C03 "
        "std variants on concrete pools. Scenarios include the public helpers as_str, as_names, object_deserialization, object_serialization, sub_conversion (also two conversions differing by it in one process), lazy registration, nested type variables.",
        design="4/C12",
    ),
    "C09": dict(
        text="Warm-versus-cold equivalence over configuration histories: an alphabet of 33 operations (every settings "
        "attribute of the five settings classes that affects results, deserializer / reset_deserializers, serializer / "
        "reset_serializer, set_object_fields(.., fields | None), type_name, schema() on a NewType, class aliaser, order "
        "overriding, validator(owner), dependent_required(owner), serialized(owner), default_type_name, conversions that "
        "make a type recursive) and 9 observation kinds (deserialize / serialize on symbolic data for four type families, "
        "both schemas). Warm run: pristine state, history with intermediate observations, observe; cold run: pristine "
        "state (all registries, all module-level containers of apischema, all settings, every lru_cache), same operations "
        "without intermediate observation, observe. Results must be equal for all data within bounds.",
        note="Histories are enumerated by forks (quick: observe/op/observe for every op and observation kind, a second op for "
        "two kinds; thorough: length 2 everywhere); the solver decides equivalence of the warm and cold compiled methods "
        "on the data. Compilation runs concretely (NoTracing). A fresh-interpreter replay is used for violations. Earlier uses with another per-call option (default_conversion) than the final observation are part of the histories (Nd jobs).",
        design="4/C09",
    ),
    "C19": dict(
        text="graphql-core 3.2 (pure Python) is executed symbolically together with apischema's resolvers. Output: the "
        "resolver returns a symbolic value of a model with aliased field, enum, Literal enum, list, Optional, Undefined, "
        "nested and list of objects, flattened object and a resolver method; the all-fields query must return "
        "serialize(T, v, aliaser=...) without conditional omissions, enums by name, Undefined as null. Arguments: symbolic "
        "variable values for scalar / list / enum / input-object parameters; the resolver must be invoked with "
        "deserialize(param_type, arg) and an argument that apischema rejects (schema constraints) must yield a GraphQL "
        "error with neither the resolver nor its error handler invoked.",
        note="ints assumed in the 32-bit range. Concrete side conditions (flagged): validate_schema empty; kinds, names, "
        "nullability, interfaces (through intermediate classes) and argument types equal the reference mapping; small "
        "schemas built and queried concretely (`build` cases: unhashable / object defaults, GraphQLResolveInfo position, "
        "none_as_undefined, nested flatten, flattened class also used plain, recursion through a resolver). "
        "Subscriptions, async resolvers and relay helpers are outside (event loop / not built). Build cases include ID types and id_encoding on variables and on literals of the query text.",
        design="4/C19",
    ),
    "C20": dict(
        text="Sequential interference harness (rely/guarantee style) over the mechanisms the property is anchored in: one "
        "real first use (T1) of each type of a program family (plain, self-recursive, mutually recursive, 3-cycle, generic "
        "recursive, recursive through conversions) runs with the shared recursion cache wrapped; at a forked access point "
        "(contains / get / getitem / setitem, index 0..13) the environment acts: another thread T2 performs, atomically, a "
        "complete real first use of a forked type of the program; likewise, while T1 is inside the lazy initialisation of a "
        "RecMethod, T2 calls the same compiled method on symbolic data. Assertion: the interfered first use, T2's own call "
        "and a follow-up use of every type return what the sequential baseline returns and raise nothing it does not "
        "raise. Every counterexample is replayed as a true two-thread run through the public API (T1 parked inside the "
        "wrapper while T2 runs). The lru_cache holding the recursion cache is modelled with its real miss semantics (the "
        "cached function runs unlocked: the miss is a switch point; a value computed while another thread stored the key is "
        "returned, not stored). Shared variant: one compiled method used by both threads on symbolic data; every attribute "
        "store T1 performs on an object of the compiled tree is a switch point after which T2 makes a complete call on the "
        "same method; both results and a follow-up call of each equal the sequential ones.",
        note="CrossHair cannot run threads: the schedule dimension is enumerated by forks over (access index, interfering "
        "type), one event in quick and two in thorough; T2 is atomic between two switch points of T1. Outside: "
        "pre-emption inside T2, free-threaded builds, atomicity of single dict operations and attribute stores (trusted, GIL).",
        design="4/C20",
        technique="bounded exhaustive enumeration of interference points driven by the CrossHair fork tree over the real "
        "code, symbolic data for the lazy-initialisation variant; true two-thread replay",
    ),
}

NOT_YET = "check not built yet at this commit (work in progress, see DESIGN.md section 4)"

NOT_APPLICABLE = {
    "C17": "every quantified dimension (type graph, type_name, all_refs, ref_factory, version, entry point) is a program or "
    "option that must be concrete before apischema runs; a symbolic executor could only enumerate concrete runs, which is "
    "not a solver verdict (DESIGN.md section 5). The data-observable part (no unresolved $ref met while validating any "
    "bounded instance) is enforced inside C06/C07/C18.",
}

ALL = [f"C{i:02d}" for i in range(1, 21)]


def main():
    checks = []
    for pid, c in CHECKS.items():
        checks.append(
            {
                "property_id": pid,
                "quick_cmd": f"./check {pid} --tier quick",
                "thorough_cmd": f"./check {pid} --tier thorough",
                "evidence_file": f"/verif/evidence/{pid}.json",
                "replay_cmd_template": "./check --replay {path}",
                "engine": "vf",
                "level_claimed": {
                    "category": "other",
                    "text": c["text"],
                    "design_ref": f"DESIGN.md section {c['design']}",
                },
                "level_note": c["note"],
                "technique": c.get("technique", TECH),
            }
        )
    na = []
    for pid in ALL:
        if pid in CHECKS:
            continue
        na.append({"property_id": pid, "reason": NOT_APPLICABLE.get(pid, NOT_YET)})
    m = {
        "version": 1,
        "setup_cmd": "./setup.sh",
        "hooks": {
            "guard": "WYFO_APISCHEMA_VERIF",
            "enable": "no source hook is needed: harnesses wrap apischema objects from outside; the variable is reserved and unused",
            "baseline_off_cmd": "cd /repo && /venv/bin/python -m pytest -ra -q -p no:cacheprovider --timeout=900 --continue-on-collection-errors",
            "source_commits": [],
            "add_only": True,
        },
        "engines": [
            {
                "name": "vf",
                "path": "/verif/vf",
                "serves_properties": sorted(CHECKS),
                "kind_free_text": "own path-exploration loop over CrossHair 0.0.110 (StateSpace/RootNode/Patched) executing "
                "apischema's compiled method trees symbolically with z3; reference semantics as oracles; concrete replay",
            }
        ],
        "checks": checks,
        "notes": "Exit 0: property held on everything explored (KNOWN-FINDING lines for listed defects); exit 1 + VIOLATION line; "
        "exit 3: harness error (non-reproducing counterexample, vacuous job). Known findings: /verif/known_findings.json.",
        "not_applicable": na,
    }
    with open(os.path.join(ROOT, "MANIFEST.json"), "w") as f:
        json.dump(m, f, indent=1)
    print("MANIFEST.json:", len(checks), "checks,", len(na), "not claimed")


if __name__ == "__main__":
    main()
