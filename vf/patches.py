"""Stubs forced by engine limits (DESIGN.md section 2).  Each is part of every claim."""
from __future__ import annotations


def _all_subclasses(cls):
    out, todo = set(), [cls]
    while todo:
        c = todo.pop()
        for s in c.__subclasses__():
            if s not in out:
                out.add(s)
                todo.append(s)
    return out | {cls}


def install_proxy_aliases():
    """`obj.__class__` on a symbolic value is the proxy class (LOAD_ATTR cannot be
    intercepted).  apischema's bad_type() looks `data.__class__` up in
    TYPE_TO_JSON_TYPE: alias each proxy class to *the current entry* of the Python type
    it stands for, so a change of the table in /repo still propagates."""
    import crosshair.libimpl.builtinslib as B
    from apischema.json_schema import types as T

    table = T.TYPE_TO_JSON_TYPE
    pairs = [
        (B.SymbolicBool, bool),
        (B.SymbolicInt, int),
        (B.SymbolicFloat, float),
        (B.AnySymbolicStr, str),
    ]
    for base, py in pairs:
        if py not in table:
            continue
        for c in _all_subclasses(base):
            table.setdefault(c, table[py])
    for name, py in (
        ("ShellMutableSequence", list),
        ("SymbolicList", list),
        ("SymbolicArrayBasedUniformTuple", list),
        ("ShellMutableMap", dict),
        ("SimpleDict", dict),
        ("ShellMutableSet", list),
    ):
        c = getattr(B, name, None)
        if c is not None and py in table:
            table.setdefault(c, table[py])


def _proxy_to_py():
    import crosshair.libimpl.builtinslib as B

    out = {}
    for base, py in ((B.SymbolicBool, bool), (B.SymbolicInt, int), (B.SymbolicFloat, float), (B.AnySymbolicStr, str)):
        for c in _all_subclasses(base):
            out[c] = py
    return out


def install_any_method_stub():
    """serialization.methods.AnyMethod dispatches on `obj.__class__`, which is the proxy
    class for a symbolic value.  The *factory argument* of every AnyMethod created from now
    on is wrapped so that a proxy class is looked up as the Python type it stands for;
    AnyMethod.serialize itself stays the code of /repo."""
    from apischema.serialization import methods as M

    if getattr(M.AnyMethod, "_vf_wrapped", False):
        return
    table = _proxy_to_py()
    orig_init = M.AnyMethod.__init__

    def init(self, factory):
        def wrapped(cls):
            return factory(table.get(cls, cls))

        orig_init(self, wrapped)

    M.AnyMethod.__init__ = init
    M.AnyMethod._vf_wrapped = True
