"""Spec language for *programs* (type + classes) and its compilation to real Python types.

A spec is the single source from which are derived, through independent code,
  (a) the real Python type (source text exec'd in a fresh module; apischema compiles it),
  (b) the reference semantics (vf/oracle/*), (c) the bounded symbolic input generators.
"""
from __future__ import annotations

import linecache
import sys
import types
from dataclasses import dataclass, field, replace
from typing import Any, Dict, List, Optional, Tuple

NODEFAULT = ("nodefault",)


@dataclass(frozen=True)
class Sp:
    k: str
    a: tuple = ()
    o: tuple = ()  # sorted (key, value) option pairs

    def opt(self, key, default=None):
        for k, v in self.o:
            if k == key:
                return v
        return default

    def __repr__(self):
        return render(self)


@dataclass(frozen=True)
class F:
    """Object field."""

    name: str
    sp: Sp
    default: Any = NODEFAULT  # ("v", pyexpr) | ("f", pyexpr of a zero-arg callable)
    alias: Optional[str] = None
    flatten: bool = False
    properties: Any = None  # True -> additional properties field; str -> pattern
    required_md: bool = False  # `required` metadata
    skip: tuple = ()  # subset of deserialization, serialization, serialization_default, serialization_if:<fn>
    none_as_undefined: bool = False
    init: bool = True
    initvar: bool = False
    fall_back: bool = False
    schema: tuple = ()  # constraint pairs on the field
    order: Any = None  # int | ("after", name) | ("before", name)
    default_as_set: bool = False
    validators: tuple = ()  # names of module-level functions
    conversion: Any = None  # pyexpr of conversion metadata
    no_override: bool = False  # alias(override=False)
    texpr: Optional[str] = None  # rendered annotation override (generic classes)

    @property
    def has_default(self):
        return self.default != NODEFAULT

    @property
    def ext(self):
        return self.alias or self.name


def P(k, *a, **o) -> Sp:
    return Sp(k, tuple(a), tuple(sorted(o.items())))


INT, FLOAT, STR, BOOL, NONE, ANY = (P(k) for k in ("int", "float", "str", "bool", "none", "any"))


def opt(s):
    return P("opt", s)


def union(*s):
    return P("union", *s)


def lst(s):
    return P("list", s)


def seq(s):
    return P("seq", s)


def st(s):
    return P("set", s)


def fset(s):
    return P("fset", s)


def vtuple(s):
    return P("vtuple", s)


def tup(*s):
    return P("tuple", *s)


def mp(v, k=STR):
    return P("map", k, v)


def lit(*v):
    return P("lit", *v)


def enum(name, *v, mixin=None):
    """mixin: "str" / "int" -> class <name>(<mixin>, Enum)"""
    return P("enum", *v, name=name, mixin=mixin) if mixin else P("enum", *v, name=name)


def newtype(name, s, **schema):
    return P("newtype", s, name=name, schema=tuple(sorted(schema.items())))


def ann(s, **c):
    return P("ann", s, c=tuple(sorted(c.items())))


def obj(name, *fields, kind="dataclass", **o):
    return P("obj", *fields, name=name, kind=kind, **o)


def ref(name):
    return P("ref", name=name)


def disc(alias, mapping, *alts, **o):
    """discriminated union; mapping: ((key, class name), ...); o: explicit=<pyexpr of the
    mapping argument or None>, inherited=<base class name or None>"""
    return P("disc", *alts, alias=alias, mapping=tuple(mapping), **o)


def subprim(name, s):
    """class <name>(<primitive>): pass"""
    return P("sub", s, name=name)


def undef(s):
    """Union[s, UndefinedType]"""
    return P("undef", s)


CONSTRAINT_KW = {
    "min": "minimum",
    "max": "maximum",
    "exc_min": "exclusive_minimum",
    "exc_max": "exclusive_maximum",
    "mult_of": "multiple_of",
    "min_len": "min_length",
    "max_len": "max_length",
    "pattern": "pattern",
    "min_items": "min_items",
    "max_items": "max_items",
    "unique": "unique_items",
    "min_props": "min_properties",
    "max_props": "max_properties",
}
NUM_C = ("min", "max", "exc_min", "exc_max", "mult_of")
STR_C = ("min_len", "max_len", "pattern")
ARR_C = ("min_items", "max_items", "unique")
OBJ_C = ("min_props", "max_props")


def render(s: Sp) -> str:
    k = s.k
    if k in ("int", "float", "str", "bool", "none", "any", "unsup"):
        return k
    if k == "ref":
        return "@" + s.opt("name")
    if k in ("enum", "newtype", "obj", "sub"):
        return f"{k}:{s.opt('name')}"
    if k == "lit":
        return "lit" + repr(list(s.a))
    if k == "ann":
        return f"ann({render(s.a[0])},{dict(s.opt('c'))})"
    return f"{k}({','.join(render(c) for c in s.a)})"


# ----------------------------------------------------------------------------- walking
def children(s: Sp):
    if s.k == "obj":
        return [f.sp for f in s.a]
    if s.k in ("lit", "enum", "ref"):
        return []
    return [c for c in s.a if isinstance(c, Sp)]


def walk(s: Sp, seen=None):
    yield s
    for c in children(s):
        yield from walk(c)


def named(s: Sp) -> Dict[str, Sp]:
    """All named definitions (obj / enum / newtype) reachable from s, in dependency order."""
    out: Dict[str, Sp] = {}

    def rec(x: Sp):
        for c in children(x):
            rec(c)
        if x.k in ("obj", "enum", "newtype", "sub"):
            n = x.opt("name")
            if n in out and out[n] != x:
                raise ValueError(f"two different definitions named {n}")
            out[n] = x
        if x.k == "disc" and x.opt("inherited"):
            # the discriminated parent class stands for the union of its subclasses:
            # ref(<parent>) inside an alternative makes the union recursive
            out[x.opt("inherited")] = x

    rec(s)
    return out


# ----------------------------------------------------------------------------- source
def _schema_expr(pairs) -> str:
    parts = []
    for k, v in pairs:
        if k == "pattern":
            parts.append(f"pattern={v!r}")
        else:
            parts.append(f"{k}={v!r}")
    return "schema(" + ", ".join(parts) + ")"


def tyexpr(s: Sp) -> str:
    k = s.k
    simple = {
        "int": "int",
        "float": "float",
        "str": "str",
        "bool": "bool",
        "none": "None",
        "any": "Any",
        "unsup": "complex",
    }
    if k in simple:
        return simple[k]
    a = s.a
    if k == "opt":
        return f"Optional[{tyexpr(a[0])}]"
    if k == "union":
        return "Union[" + ", ".join(tyexpr(c) for c in a) + "]"
    if k == "undef":
        return f"Union[{tyexpr(a[0])}, UndefinedType]"
    if k == "disc":
        if s.opt("inherited"):
            return s.opt("inherited")
        u = "Union[" + ", ".join(tyexpr(c) for c in a) + "]"
        arg = repr(s.opt("alias")) + (", " + s.opt("explicit") if s.opt("explicit") else "")
        return f"Annotated[{u}, discriminator({arg})]"
    if k == "list":
        return f"List[{tyexpr(a[0])}]"
    if k == "seq":
        return f"Sequence[{tyexpr(a[0])}]"
    if k == "set":
        return f"Set[{tyexpr(a[0])}]"
    if k == "fset":
        return f"FrozenSet[{tyexpr(a[0])}]"
    if k == "vtuple":
        return f"Tuple[{tyexpr(a[0])}, ...]"
    if k == "tuple":
        return "Tuple[" + ", ".join(tyexpr(c) for c in a) + "]"
    if k == "map":
        return f"{s.opt('cls', 'Dict')}[{tyexpr(a[0])}, {tyexpr(a[1])}]"
    if k == "lit":
        return "Literal[" + ", ".join(repr(v) for v in a) + "]"
    if k == "obj" and s.opt("texpr"):
        return s.opt("texpr")
    if k in ("enum", "newtype", "obj", "sub"):
        return s.opt("name")
    if k == "ref":
        return repr(s.opt("name"))
    if k == "ann":
        extra = s.opt("extra")
        parts = []
        if s.opt("c"):
            parts.append(_schema_expr(s.opt("c")))
        if extra:
            parts.append(extra)
        return f"Annotated[{tyexpr(a[0])}, {', '.join(parts)}]"
    raise ValueError(k)


def _field_md(f: F) -> list:
    md = []
    if f.alias is not None:
        md.append(f"alias({f.alias!r}, override=False)" if f.no_override else f"alias({f.alias!r})")
    if f.flatten:
        md.append("flatten")
    if f.properties is True:
        md.append("properties")
    elif isinstance(f.properties, str):
        md.append(f"properties({f.properties!r})")
    if f.required_md:
        md.append("required")
    if f.skip:
        kw = []
        for sk in f.skip:
            if sk.startswith("serialization_if:"):
                kw.append(f"serialization_if={sk.split(':', 1)[1]}")
            else:
                kw.append(f"{sk}=True")
        md.append("skip(" + ", ".join(kw) + ")")
    if f.none_as_undefined:
        md.append("none_as_undefined")
    if f.fall_back:
        md.append("fall_back_on_default")
    if f.schema:
        md.append(_schema_expr(f.schema))
    if f.order is not None:
        if isinstance(f.order, int):
            md.append(f"order({f.order})")
        else:
            md.append(f"order({f.order[0]}={f.order[1]!r})")
    if f.default_as_set:
        md.append("default_as_set")
    if f.validators:
        md.append("validators(" + ", ".join(f.validators) + ")")
    if f.conversion:
        md.append(f.conversion)
    return md


def _field_rhs(f: F, kind: str) -> str:
    md = _field_md(f)
    args = []
    if f.has_default:
        tag, expr = f.default
        args.append(("default=" if tag == "v" else "default_factory=") + expr)
    if not f.init:
        args.append("init=False")
    if md:
        args.append("metadata=" + " | ".join(md))
    if kind != "dataclass":
        if not f.init:
            raise ValueError("init=False only on dataclass fields")
        if f.has_default:
            assert f.default[0] == "v"
            return " = " + f.default[1]
        return ""
    if not args:
        return ""
    if len(args) == 1 and f.has_default and f.default[0] == "v":
        return " = " + f.default[1]
    return " = field(" + ", ".join(args) + ")"


def source(root: Sp, extra_src: str = "") -> str:
    """Python source defining every named type of the program; `ROOT` is the root type."""
    lines = [
        "from dataclasses import dataclass, field, InitVar",
        "from enum import Enum",
        "from typing import *",
        "from typing import NamedTuple, TypedDict, NewType, Annotated, Literal",
        "from apischema import (alias, schema, Undefined, UndefinedType, order, validator,",
        "    ValidationError, type_name, discriminator, serialized, properties,",
        "    dependent_required, deserializer, serializer, identity)",
        "from apischema.metadata import (flatten, required, skip, none_as_undefined,",
        "    fall_back_on_default, default_as_set, validators, conversion, init_var, post_init)",
        "from apischema.fields import with_fields_set, fields_set, set_fields, unset_fields",
        "",
        extra_src,
        "",
    ]
    for name, d in named(root).items():
        if d.k == "disc":
            continue  # the parent class comes with the program's extra source
        if d.k == "enum":
            lines.append(f"class {name}({d.opt('mixin')}, Enum):" if d.opt("mixin") else f"class {name}(Enum):")
            for i, v in enumerate(d.a):
                lines.append(f"    m{i} = {v!r}")
        elif d.k == "sub":
            lines.append(f"class {name}({tyexpr(d.a[0])}):\n    pass")
        elif d.k == "newtype":
            lines.append(f"{name} = NewType({name!r}, {tyexpr(d.a[0])})")
            if d.opt("schema"):
                lines.append(f"{_schema_expr(d.opt('schema'))}({name})")
        elif d.opt("raw_src"):
            lines.extend(d.opt("raw_src").splitlines())
        else:
            kind = d.opt("kind")
            if d.opt("class_aliaser"):
                lines.append(f"@alias({CLASS_ALIASERS[d.opt('class_aliaser')][0]})")
            for deco in d.opt("deco", ()):
                lines.append("@" + deco)
            if kind == "dataclass":
                dargs = d.opt("dargs", "")
                lines.append(f"@dataclass({dargs})" if dargs else "@dataclass")
                bases = d.opt("bases", "")
                lines.append(f"class {name}({bases}):" if bases else f"class {name}:")
            elif kind == "namedtuple":
                lines.append(f"class {name}(NamedTuple):")
            else:
                tot = "" if d.opt("total", True) else ", total=False"
                lines.append(f"class {name}(TypedDict{tot}):")
            if not d.a and not d.opt("body"):
                lines.append("    pass")
            for f in d.a:
                te = f.texpr or tyexpr(f.sp)
                if kind != "dataclass" and _field_md(f):
                    te = f"Annotated[{te}, {' | '.join(_field_md(f))}]"
                if f.initvar:
                    te = f"InitVar[{te}]"
                lines.append(f"    {f.name}: {te}{_field_rhs(f, kind)}")
            if d.opt("body"):
                for ln in d.opt("body").splitlines():
                    lines.append("    " + ln)
            if d.opt("post"):
                lines.extend(d.opt("post").splitlines())
        lines.append("")
    lines.append("ROOT = type(None)" if root.k == "none" else f"ROOT = {tyexpr(root)}")
    return "\n".join(lines) + "\n"


_counter = [0]


@dataclass
class Program:
    pid: str
    spec: Sp
    src: str
    module: Any
    tp: Any

    def cls(self, name):
        return getattr(self.module, name)


def exec_module(name: str, src: str):
    """exec source in a fresh registered module whose source inspect.getsource can find"""
    _counter[0] += 1
    modname = f"{name}_{_counter[0]}"
    filename = f"<vf:{modname}>"
    mod = types.ModuleType(modname)
    mod.__file__ = filename
    sys.modules[modname] = mod
    linecache.cache[filename] = (len(src), None, src.splitlines(True), filename)
    exec(compile(src, filename, "exec"), mod.__dict__)
    return mod


def build(pid: str, spec: Sp, extra_src: str = "") -> Program:
    """exec the generated source in a fresh registered module (forward refs, getsource)."""
    src = source(spec, extra_src)
    _counter[0] += 1
    modname = f"vfprog_{_counter[0]}"
    filename = f"<vf:{pid}:{_counter[0]}>"
    mod = types.ModuleType(modname)
    mod.__file__ = filename
    sys.modules[modname] = mod
    linecache.cache[filename] = (len(src), None, src.splitlines(True), filename)
    exec(compile(src, filename, "exec"), mod.__dict__)
    return Program(pid, spec, src, mod, mod.ROOT)


def default_value(prog: Program, f: F):
    """Fresh default of a field, evaluated in the program's own namespace."""
    tag, expr = f.default
    v = eval(expr, prog.module.__dict__)
    return v() if tag == "f" else v


CLASS_ALIASERS = {
    "upper": ("lambda s: s.upper()", lambda s: s.upper()),
    "cprefix": ("lambda s: 'c_' + s", lambda s: "c_" + s),
}


def static_alias(o: Sp, f: F) -> str:
    """alias or name, through the class aliaser unless the field opted out (documented)"""
    a = f.alias or f.name
    ca = o.opt("class_aliaser")
    if ca and not f.no_override:
        a = CLASS_ALIASERS[ca][1](a)
    return a


def is_required(o: Sp, f: F) -> bool:
    """documented required-ness of a field of object spec o"""
    if o.opt("kind") == "typeddict":
        return bool(o.opt("total", True)) or f.required_md
    return (not f.has_default) or f.required_md


def can_default(o: Sp, f: F) -> bool:
    """an absent / fallen-back value exists (default, or absence for a typed dict key)"""
    if o.opt("kind") == "typeddict":
        return not o.opt("total", True)
    return f.has_default


def resolve(prog_spec: Sp, s: Sp) -> Sp:
    """Follow a ref to its definition."""
    if s.k == "ref":
        return named(prog_spec)[s.opt("name")]
    return s
