"""C20: concurrent first use from several threads is safe (DESIGN.md 4/C20).

CrossHair cannot run threads.  The anchored mechanisms are decided by a *sequential
interference harness*: one real first use (thread T1) runs with the shared recursion cache
replaced by a dict wrapper; before a forked access point the *environment* acts: another
thread T2 performs, atomically, a complete real first use of a forked type of the program
(and likewise, while T1 is inside the lazy initialisation of a RecMethod, T2 calls the same
compiled method).  The symbolic variables are when the interference happens (access index)
and the data of the follow-up uses.  Observable assertion, as the property states: the
interfered first use and a follow-up use of every type return what the sequential baseline
returns and raise nothing it does not raise.

Replay is a true two-thread run through the public API: T1 is parked by an event inside the
dict wrapper at the access point while T2 runs its first use.

Outside: pre-emption inside T2's first use (T2 is atomic here), more than two interference
events, free-threaded builds, the C implementation of lru_cache / dict (GIL-atomic)."""
from __future__ import annotations

import threading
from typing import Optional

from vf.engine import Ctx, Failure
from vf.specs import exec_module
from vf.sym import same

PROGRAMS = {
    "mutual": dict(
        src='''
@dataclass
class A:
    b: Optional["B"] = None
    n: int = 0

@dataclass
class B:
    a: Optional[A] = None
''',
        roots=["A", "B", "Optional[B]", "Optional[A]", "List[A]"],
    ),
    "self": dict(
        src='''
@dataclass
class Node:
    v: int
    nxt: Optional["Node"] = None
    kids: List["Node"] = field(default_factory=list)
''',
        roots=["Node", "Optional[Node]", "List[Node]", "Dict[str, Node]"],
    ),
    "three": dict(
        src='''
@dataclass
class X:
    y: Optional["Y"] = None

@dataclass
class Y:
    z: List["Z"] = field(default_factory=list)

@dataclass
class Z:
    x: Optional[X] = None
    k: int = 0
''',
        roots=["X", "Y", "Z", "List[Z]", "Optional[Y]"],
    ),
    "plain": dict(
        src='''
@dataclass
class Inner:
    i: int = 0

@dataclass
class Outer:
    a: Inner = field(default_factory=Inner)
    b: List[Inner] = field(default_factory=list)
    c: Optional[int] = None

@dataclass
class Other:
    o: Optional[Outer] = None
    k: int = 0
''',
        roots=["Outer", "Other", "List[Other]", "Inner"],
    ),
    "generic": dict(
        src='''
T_ = TypeVar("T_")

@dataclass
class G(Generic[T_]):
    item: T_
    rest: Optional["G[T_]"] = None

@dataclass
class Plain:
    g: Optional[G[int]] = None
    s: str = ""
''',
        roots=["G[int]", "Plain", "Optional[G[int]]"],
    ),
    "conversion": dict(
        src='''
from apischema import deserializer, serializer

class Leaf:
    def __init__(self, v): self.v = v
    def __eq__(self, o): return type(o) is Leaf and o.v == self.v
    __hash__ = None

@dataclass
class Tr:
    v: int = 0
    kids: List[Leaf] = field(default_factory=list)

@deserializer
def leaf_from(t: Tr) -> Leaf: return Leaf(t)
@serializer
def leaf_to(l: Leaf) -> Tr: return l.v
''',
        roots=["Tr", "Leaf", "List[Leaf]"],
    ),
}
HEAD = "from dataclasses import dataclass, field\nfrom typing import *\n"


def jobs(prop, tier, seed):
    out = []
    for pid, P in PROGRAMS.items():
        for i, root in enumerate(P["roots"]):
            for api in ("deserialize", "serialize"):
                out.append(dict(harness="C20", variant="cache", pid=pid, root=i, api=api, events=1 if tier == "quick" else 2, opts={}, bounds={}, budget_s=60 if tier == "quick" else 400))
    for pid in ("mutual", "self", "generic"):
        out.append(dict(harness="C20", variant="lazy", pid=pid, opts={}, bounds={}, budget_s=60))
    for pid in SHARED:
        out.append(dict(harness="C20", variant="shared", pid=pid, opts={}, bounds={}, budget_s=60))
    return out


class Hooked(dict):
    """the shared recursion cache; `hook(kind)` runs before every access of T1"""

    hook = None
    owner = None

    def _fire(self, kind):
        h = self.hook
        if h is not None and threading.get_ident() == self.owner:
            h(kind)

    def __contains__(self, k):
        self._fire("contains")
        return dict.__contains__(self, k)

    def __getitem__(self, k):
        self._fire("getitem")
        return dict.__getitem__(self, k)

    def get(self, k, default=None):
        self._fire("get")
        return dict.get(self, k, default)

    def setdefault(self, k, default=None):
        self._fire("setdefault")
        return dict.setdefault(self, k, default)

    def __setitem__(self, k, v):
        self._fire("setitem")
        dict.__setitem__(self, k, v)


class Cache:
    def __init__(self, job):
        from apischema import ValidationError

        self.method_note = 'enumeration of interference points (access index x interfering type) by forks over the real code; compile-time only, no symbolic datum'
        self.job = job
        P = PROGRAMS[job["pid"]]
        self.mod = exec_module("vf_c20", HEAD + P["src"])
        self.ns = self.mod.__dict__
        self.roots = [eval(r, self.ns) for r in P["roots"]]
        self.root = self.roots[job["root"]]
        self.api = job["api"]
        self.VE = ValidationError
        self.functions = [
            "apischema.recursion.RecursiveChecker.visit",
            "apischema.recursion.is_recursive",
            "apischema.recursion.recursion_cache (shared dict, wrapped)",
            "apischema.recursion.RecursiveConversionsVisitor.visit",
        ]
        self.expect_tags = ["interfered"]
        self.assumptions = [
            "T2's first use is atomic between two cache accesses of T1 (coarser than arbitrary pre-emption)",
            "single dict operations are atomic under the GIL; an lru_cache miss runs its function unlocked (modelled)",
        ]
        self.relax = ()
        self.baseline = self.sequential()

    # -- fresh process-global state
    def reset(self):
        import apischema.cache

        apischema.cache.reset()

    def first_use(self, tp):
        from apischema import deserialization_method, serialization_method

        return (deserialization_method if self.api == "deserialize" else serialization_method)(tp)

    def probe(self, tp):
        """a follow-up use of tp on a small concrete datum: outcome class only"""
        try:
            m = self.first_use(tp)
        except RecursionError:
            return "RecursionError"
        except Exception as e:
            return type(e).__name__
        try:
            if self.api == "deserialize":
                try:
                    m({})
                except self.VE:
                    pass
                try:
                    m([])
                except self.VE:
                    pass
                try:
                    m(None)
                except self.VE:
                    pass
            return "ok"
        except RecursionError:
            return "RecursionError"
        except Exception as e:
            return type(e).__name__

    def sequential(self):
        self.reset()
        return [self.probe(tp) for tp in [self.root] + self.roots]

    def install(self, hook):
        """replace the shared recursion caches by hooked dicts"""
        import apischema.recursion as R

        self.reset()
        store = {}

        t1 = threading.get_ident()

        def hooked_cache(*checker_cls):
            # (the key is the whole argument tuple of recursion_cache, whatever its arity)
            # functools.lru_cache semantics: on a miss the function body runs unlocked (a
            # switch point); if another thread stored the key meanwhile, the computed result
            # is returned but NOT stored
            if checker_cls in store:
                return store[checker_cls]
            h = Hooked()
            h.hook = hook
            h.owner = t1
            if threading.get_ident() == t1:
                hook("cache-miss")
            if checker_cls in store:
                return h
            store[checker_cls] = h
            return h

        self._orig_cache = R.recursion_cache
        R.recursion_cache = hooked_cache
        return store

    def uninstall(self):
        import apischema.recursion as R

        R.recursion_cache = self._orig_cache
        self.reset()

    def body(self, ctx: Ctx) -> Optional[Failure]:
        from crosshair.tracers import NoTracing

        n_events = self.job["events"]
        plan = []  # (access index, type index)
        for _ in range(n_events):
            if ctx.flag("event"):
                plan.append((ctx.choice(14, "at"), ctx.choice(len(self.roots), "who")))
        if not plan:
            return None
        ctx.witness = {"root": PROGRAMS[self.job["pid"]]["roots"][self.job["root"]], "api": self.api,
                       "interference": [[i, PROGRAMS[self.job["pid"]]["roots"][k]] for i, k in plan]}
        ctx.run_phase()
        ctx.notes["tag:interfered"] = True
        if ctx.concrete is not None:
            res = self.run(plan, threaded=True)
        else:
            with NoTracing():
                res = self.run(plan, threaded=False)
        if res != self.baseline:
            return Failure("interleaving-changes-results", witness=ctx.witness, extra={"interfered": res, "sequential": self.baseline})
        return None

    def run(self, plan, threaded):
        count = [0]
        busy = [False]
        pending = sorted(plan)

        t2_out = []

        def t2(k):
            # T2's own call is observable too: it must behave as it does sequentially
            try:
                self.first_use(self.roots[k])
                t2_out.append("ok")
            except BaseException as e:
                t2_out.append(type(e).__name__)

        def hook(kind):
            if busy[0]:
                return
            i = count[0]
            count[0] += 1
            todo = [k for (at, k) in pending if at == i]
            if not todo:
                return
            busy[0] = True
            try:
                for k in todo:
                    if threaded:
                        th = threading.Thread(target=t2, args=(k,))
                        th.start()
                        th.join(60)  # T1 is parked here while T2 runs its own first use
                    else:
                        t2(k)
            finally:
                busy[0] = False

        self.install(hook)
        try:
            res = [self.probe(tp) for tp in [self.root] + self.roots]
            bad = [o for o in t2_out if o != "ok"]
            return res + (["T2:" + o for o in bad] if bad else [])
        finally:
            self.uninstall()


class Lazy:
    """RecMethod lazy initialisation: while T1 is inside lazy(), T2 calls the same compiled
    method on (symbolic) data"""

    def __init__(self, job):
        from apischema import ValidationError, deserialization_method, serialization_method

        self.method_note = 'interference inside RecMethod.lazy() with symbolic data for both calls'
        self.job = job
        P = PROGRAMS[job["pid"]]
        self.mod = exec_module("vf_c20l", HEAD + P["src"])
        self.ns = self.mod.__dict__
        self.tp = eval(P["roots"][0], self.ns)
        self.VE = ValidationError
        self.dm = deserialization_method
        self.sm = serialization_method
        self.functions = [
            "apischema.deserialization.methods.RecMethod.deserialize",
            "apischema.serialization.methods.RecMethod.serialize",
        ]
        self.expect_tags = ["interfered"]
        self.assumptions = ["T2's call is atomic inside T1's lazy(); GIL-atomic attribute stores"]
        self.relax = ()

    def data(self, ctx, depth=2):
        pid = self.job["pid"]
        if pid == "mutual":
            d = {"n": ctx.int("n")}
            if depth > 0 and ctx.flag("b"):
                d["b"] = {"a": self.data(ctx, depth - 1)} if ctx.flag("a") else {}
            return d
        if pid == "self":
            d = {"v": ctx.int("v")}
            if depth > 0 and ctx.flag("nxt"):
                d["nxt"] = self.data(ctx, depth - 1)
            if depth > 0 and ctx.flag("kid"):
                d["kids"] = [self.data(ctx, depth - 1)]
            return d
        d = {"item": ctx.int("i")}
        if depth > 0 and ctx.flag("rest"):
            d["rest"] = self.data(ctx, depth - 1)
        return d

    def rec_methods(self, method):
        import dataclasses

        out, seen = [], set()

        def rec(x):
            if id(x) in seen:
                return
            seen.add(id(x))
            if type(x).__name__ == "RecMethod":
                out.append(x)
            if dataclasses.is_dataclass(x) and not isinstance(x, type):
                for f in dataclasses.fields(x):
                    rec(getattr(x, f.name, None))
            elif isinstance(x, (list, tuple)):
                for v in x:
                    rec(v)
            elif isinstance(x, dict):
                for v in x.values():
                    rec(v)

        rec(getattr(method, "__self__", None))
        return out

    def body(self, ctx: Ctx):
        import apischema.cache

        d1 = self.data(ctx)
        d2 = self.data(ctx)
        ctx.witness = {"t1": d1, "t2": d2}
        ctx.run_phase()
        ctx.notes["tag:interfered"] = True
        # sequential baseline on a fresh method
        apischema.cache.reset()
        base = self.dm(self.tp)
        exp1, exp2 = base(d1), base(d2)
        apischema.cache.reset()
        m = self.dm(self.tp)
        recs = self.rec_methods(m)
        if not recs:
            return None
        got2 = []
        threaded = ctx.concrete is not None
        for r in recs:
            orig = r.lazy
            state = {"in": False}

            def lazy(orig=orig, state=state):
                if not state["in"]:
                    state["in"] = True  # T1 is inside lazy(): T2 uses the same method now

                    def t2():
                        try:
                            got2.append(("ok", m(d2)))
                        except self.VE as e:
                            got2.append(("err", e.errors))
                        except Exception as e:
                            got2.append(("raise", type(e).__name__))

                    if threaded:
                        th = threading.Thread(target=t2)
                        th.start()
                        th.join(60)
                    else:
                        t2()
                return orig()

            r.lazy = lazy
        try:
            got1 = ("ok", m(d1))
        except Exception as e:
            got1 = ("raise", type(e).__name__)
        if got1[0] != "ok" or not same(got1[1], exp1):
            return Failure("first-use-result-differs-under-interference", witness=ctx.witness, extra={"t1": got1, "expected": exp1})
        for g in got2:
            if g[0] != "ok" or not same(g[1], exp2):
                return Failure("concurrent-call-result-differs", witness=ctx.witness, extra={"t2": g, "expected": exp2})
        return None


SHARED = {
    # one compiled method shared by both threads, values of two classes at Any-typed positions
    "any": dict(tp="Any", api="serialize", a="Cat(s1, i1)", b="Dog(s2, i2)"),
    "list_any": dict(tp="List[Any]", api="serialize", a="[Cat(s1, i1), Dog(s1, i1)]", b="[Dog(s2, i2), Cat(s2, i2)]"),
    "dict_any": dict(tp="Dict[str, Any]", api="serialize", a="{'k': Cat(s1, i1)}", b="{'k': Dog(s2, i2), 'l': 0}"),
    "holder_any": dict(tp="Holder", api="serialize", a="Holder(Cat(s1, i1))", b="Holder(Dog(s2, i2), [Cat(s2, i2)])"),
    "union": dict(tp="Union[Cat, Dog]", api="serialize", a="Cat(s1, i1)", b="Dog(s2, i2)"),
    "fallback": dict(tp="Base", api="serialize", kw="fall_back_on_any=True", a="Sub1(i1, s1)", b="Sub2(i2, i2)"),
    "rec_ser": dict(tp="Node", api="serialize", a="Node(i1, Node(i2))", b="Node(i2, None, [Node(i1)])"),
    "rec_deser": dict(tp="Node", api="deserialize", a="{'v': i1, 'nxt': {'v': i2}}", b="{'v': i2, 'kids': [{'v': i1}]}"),
    "union_deser": dict(tp="Union[Cat, Dog]", api="deserialize", a="{'name': s1, 'lives': i1}", b="{'name': s2, 'legs': i2}"),
}
SHARED_SRC = '''
@dataclass
class Cat:
    name: str
    lives: int = 9

@dataclass
class Dog:
    name: str
    legs: int = 4

@dataclass
class Holder:
    x: Any
    more: List[Any] = field(default_factory=list)

@dataclass
class Base:
    k: int = 0

@dataclass
class Sub1(Base):
    extra: str = ""

@dataclass
class Sub2(Base):
    other: int = 0

@dataclass
class Node:
    v: int
    nxt: Optional["Node"] = None
    kids: List["Node"] = field(default_factory=list)
'''


class Shared:
    """one compiled method used by two threads at once: every attribute store T1 performs on
    an object of the compiled tree (methods, fields, fallbacks, constructors) is a switch
    point after which T2 makes a complete call on the same method; both calls, and a
    follow-up call of each, return what they return alone"""

    def __init__(self, job):
        from apischema import ValidationError, deserialization_method, serialization_method

        self.method_note = "switch points (attribute stores on the shared compiled tree) enumerated by forks; data symbolic"
        self.job = job
        self.S = SHARED[job["pid"]]
        self.mod = exec_module("vf_c20s", HEAD + SHARED_SRC)
        self.ns = self.mod.__dict__
        self.tp = eval(self.S["tp"], self.ns)
        self.VE = ValidationError
        self.make = deserialization_method if self.S["api"] == "deserialize" else serialization_method
        self.kw = eval("dict(%s)" % self.S.get("kw", ""))
        self.functions = [
            "apischema.serialization.methods.* (attribute stores hooked)",
            "apischema.deserialization.methods.* (attribute stores hooked)",
        ]
        self.expect_tags = ["interfered"]
        self.assumptions = ["T2's call is atomic after one of T1's attribute stores; GIL-atomic single stores", "switch points = stores to objects of the compiled method tree"]
        self.relax = ()

    def classes(self):
        import apischema.deserialization.methods as DM
        import apischema.serialization.methods as SM

        return [c for m in (DM, SM) for c in vars(m).values() if isinstance(c, type) and c.__module__ == m.__name__ and not issubclass(c, BaseException)]

    def outcome(self, m, x):
        try:
            return ("ok", m(x))
        except self.VE as e:
            return ("err", e.errors)
        except Exception as e:
            return ("raise", type(e).__name__)

    def fresh(self):
        import apischema.cache

        apischema.cache.reset()
        return self.make(self.tp, **self.kw)

    def run(self, m, a, b, at, threaded):
        """T1 = m(a); after T1's store number `at` (0 = before T1 starts), T2 = m(b)"""
        state = {"n": 0, "busy": False, "t2": None}

        def t2():
            state["t2"] = self.outcome(m, b)

        def switch():
            if threaded:
                th = threading.Thread(target=t2)
                th.start()
                th.join(60)
            else:
                t2()

        def hooked(obj, name, value):
            object.__setattr__(obj, name, value)
            if state["busy"]:
                return
            state["n"] += 1
            if state["n"] == at:
                state["busy"] = True
                try:
                    switch()
                finally:
                    state["busy"] = False

        classes = self.classes()
        for c in classes:
            c.__setattr__ = hooked
        try:
            if at == 0:
                state["busy"] = True
                switch()
                state["busy"] = False
            t1 = self.outcome(m, a)
        finally:
            for c in classes:
                try:
                    del c.__setattr__
                except AttributeError:
                    pass
        return t1, state["t2"], state["n"]

    def body(self, ctx: Ctx):
        env = dict(self.ns)
        env.update(s1=ctx.str("s1", 1), s2=ctx.str("s2", 1), i1=ctx.int("i1"), i2=ctx.int("i2"))
        a, b = eval(self.S["a"], env), eval(self.S["b"], env)
        ctx.witness = {"t1": a, "t2": b}
        ctx.run_phase()
        ctx.notes["tag:interfered"] = True
        base = self.fresh()
        exp1, exp2 = self.outcome(base, a), self.outcome(base, b)
        threaded = ctx.concrete is not None
        # the stores T1 performs alone on a fresh method (first use: lazy initialisations)
        _, _, n_first = self.run(self.fresh(), a, b, -1, False)
        # ... and on a warm one
        warm = self.fresh()
        self.outcome(warm, a), self.outcome(warm, b)
        _, _, n_warm = self.run(warm, a, b, -1, False)
        first = ctx.flag("first-use")
        at = ctx.choice((n_first if first else n_warm) + 1, "switch")
        m = self.fresh()
        if not first:
            self.outcome(m, a), self.outcome(m, b)
        ctx.witness = {"t1": a, "t2": b, "first_use": bool(first), "switch_after_store": at}
        t1, t2, _ = self.run(m, a, b, at, threaded)

        def eq(x, y):
            return x[0] == y[0] and (same(x[1], y[1]) if x[0] == "ok" else x[1] == y[1])

        if not eq(t1, exp1):
            return Failure("shared-method-result-differs-under-interference", witness=ctx.witness, extra={"t1": t1, "expected": exp1})
        if t2 is None or not eq(t2, exp2):
            return Failure("concurrent-call-result-differs", witness=ctx.witness, extra={"t2": t2, "expected": exp2})
        after1, after2 = self.outcome(m, a), self.outcome(m, b)
        if not eq(after1, exp1) or not eq(after2, exp2):
            return Failure("shared-method-corrupted-after-interference", witness=ctx.witness, extra={"after": [after1, after2], "expected": [exp1, exp2]})
        return None


def make(job):
    if job["variant"] == "shared":
        return Shared(job)
    return Lazy(job) if job["variant"] == "lazy" else Cache(job)
