"""Shared pieces of harnesses: program instantiation, evidence helpers."""
from __future__ import annotations

import dataclasses
from typing import Any, Dict, List

from vf import pools
from vf.oracle.deser import Opts
from vf.specs import Program, build
from vf.sym import Bounds

ALIASERS = {
    "identity": None,
    "camel": "camel",
    "prefix": "prefix",
}


def prefix_aliaser(s: str) -> str:
    return "x_" + s


def get_aliaser(name):
    if name in (None, "identity"):
        return None
    if name == "camel":
        from apischema.utils import to_camel_case

        return to_camel_case
    if name == "prefix":
        return prefix_aliaser
    raise ValueError(name)


def program_of(job) -> Program:
    spec, src = pools.get(job["pool"], job["pid"])
    return build(job["pid"], spec, src)


def ref_opts(job) -> Opts:
    o = job.get("opts", {})
    return Opts(
        additional_properties=o.get("additional_properties", False),
        fall_back_on_default=o.get("fall_back_on_default", False),
        aliaser=get_aliaser(o.get("aliaser")),
    )


def api_kwargs(job) -> dict:
    o = job.get("opts", {})
    kw = {}
    for k in ("additional_properties", "fall_back_on_default", "no_copy", "coerce"):
        if k in o:
            kw[k] = o[k]
    if o.get("aliaser"):
        kw["aliaser"] = get_aliaser(o["aliaser"])
    return kw


def bounds_of(job) -> Bounds:
    return Bounds(**job.get("bounds", {}))


def method_classes(method, prefix="") -> List[str]:
    """qualified names of the `deserialize` / `serialize` functions in a compiled tree"""
    seen, out = set(), set()

    def rec(x):
        if id(x) in seen:
            return
        seen.add(id(x))
        mod = getattr(type(x), "__module__", "")
        if mod.startswith("apischema.") and (
            hasattr(x, "deserialize") or hasattr(x, "serialize") or hasattr(x, "update_result") or hasattr(x, "construct") or hasattr(x, "validate")
        ):
            for attr in ("deserialize", "serialize", "update_result", "construct", "validate"):
                if hasattr(type(x), attr):
                    out.add(f"{mod}.{type(x).__qualname__}.{attr}")
        if mod.startswith("apischema.deserialization.methods") and type(x).__name__ == "RecMethod":
            try:
                if x.method is None:
                    x.method = x.lazy()
                rec(x.method)
            except Exception:
                pass
        if dataclasses.is_dataclass(x) and not isinstance(x, type):
            for f in dataclasses.fields(x):
                rec(getattr(x, f.name, None))
        elif isinstance(x, (list, tuple, set, frozenset)):
            for v in x:
                rec(v)
        elif isinstance(x, dict):
            for v in x.values():
                rec(v)

    rec(method)
    return sorted(out)


def self_of(bound_method):
    return getattr(bound_method, "__self__", None)


def tree_state(method):
    """concrete state of a compiled method tree (sets, dicts, tuples and scalars held by the
    method objects); compared before / after a call: a deserialize / serialize call must not
    leave anything behind in the cached method it ran"""
    seen = {}

    def rec(x, depth=0):
        if depth > 40:
            return "..."
        if x is None or isinstance(x, (bool, int, float, str)):
            return x
        if isinstance(x, type) or callable(x) and not dataclasses.is_dataclass(x):
            return ("obj", id(x))
        if id(x) in seen:
            return ("ref", seen[id(x)])
        seen[id(x)] = len(seen)
        if isinstance(x, (set, frozenset)):
            return ("set", sorted((repr(rec(v, depth + 1)) for v in x)))
        if isinstance(x, dict):
            return ("dict", [(repr(k), rec(v, depth + 1)) for k, v in x.items()])
        if isinstance(x, (list, tuple)):
            return ("seq", [rec(v, depth + 1) for v in x])
        if dataclasses.is_dataclass(x) and type(x).__module__.startswith("apischema."):
            out = []
            for f in dataclasses.fields(x):
                v = getattr(x, f.name, None)
                if type(x).__name__ == "RecMethod" and f.name == "method":
                    continue  # lazily resolved once: allowed
                out.append((f.name, rec(v, depth + 1)))
            return (type(x).__name__, out)
        return ("obj", id(x))

    return rec(method)
