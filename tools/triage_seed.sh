#!/bin/bash
# tools/triage_seed.sh <worktree-with-change> <PROP>...: quick checks against another checkout
# (VF_SRC), in parallel with other work; nothing is applied to /repo, no evidence written.
wt=$1; shift
cd "$(dirname "$0")/.."
for p in "$@"; do
  out=$(VF_SRC="$wt" ./check "$p" --tier quick --no-evidence ${VF_ONLY:+--only "$VF_ONLY"} 2>&1); rc=$?
  echo "== $p exit=$rc"
  echo "$out" | grep -E "^VIOLATION|^SUMMARY|^HARNESS|^VACUOUS|^KNOWN|^INCONCLUSIVE" | cut -c1-300 | sort | uniq -c | sort -rn | head -8
  echo "$out" | grep -A1 "^VIOLATION" | grep "^  program" | head -5
done
