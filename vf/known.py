"""Witness predicates of the known findings (known_findings.json).

A finding is identified by the *semantics of the defect*: the failing input is re-judged
on the real code with the reference semantics relaxed by exactly that defect
(RefDeser.relax).  If the disagreement disappears, the failure is this finding; a failing
path that no predicate explains is a new violation.  Nothing here is written at run time.
"""
from __future__ import annotations


def _rerun(job, failure, **attrs) -> bool:
    """the failure disappears when the harness instance is given `attrs`"""
    from vf.engine import run_concrete
    from vf.run import harness_module

    H = harness_module(job["harness"])
    inst = H.make(job)
    for k, v in attrs.items():
        setattr(inst, k, v)
    try:
        fail, _ = run_concrete(inst.body, failure["inputs"])
    except Exception:
        return False
    return fail is None


def _explained(job, failure, flag) -> bool:
    return _rerun(job, failure, relax=(flag,))


def literal_bool_int_conflation(job, failure) -> bool:
    return _explained(job, failure, "lit_bool_int")


def union_bytype_int_for_float(job, failure) -> bool:
    return _explained(job, failure, "union_bytype_int")


def unique_items_bool_int(job, failure) -> bool:
    # alone, or together with the Literal / Enum conflation of the same two values
    # ([1, True] at a unique list of Literal[1, ...]: True is taken for 1, then for a duplicate)
    return _explained(job, failure, "unique_bool_int") or _rerun(job, failure, relax=("unique_bool_int", "lit_bool_int"))


def unique_items_unhashable(job, failure) -> bool:
    """C03: the crash disappears when UniqueItemsConstraint tolerates elements that
    to_hashable() cannot hash (dict with mixed-type keys, non-JSON unhashable value)"""
    if failure.get("kind") != "crash" or failure.get("extra", {}).get("exc") != "TypeError":
        return False
    from apischema.deserialization import methods as M
    from vf.engine import run_concrete
    from vf.run import harness_module

    orig = M.UniqueItemsConstraint.validate

    def tolerant(self, data):
        try:
            return orig(self, data)
        except TypeError:
            return True

    M.UniqueItemsConstraint.validate = tolerant
    try:
        inst = harness_module(job["harness"]).make(job)
        fail, _ = run_concrete(inst.body, failure["inputs"])
        return fail is None
    except Exception:
        return False
    finally:
        M.UniqueItemsConstraint.validate = orig


def flattened_schema_closed_members(job, failure) -> bool:
    """C06: the disagreement disappears when the members of an allOf closed by
    unevaluatedProperties do not carry their own additionalProperties"""
    return _rerun(job, failure, repair=True)


def discriminator_outside_alternative_schemas(job, failure) -> bool:
    """C06 / C07: the disagreement disappears when every alternative of the discriminated
    union allows and requires the discriminator property (with its mapped keys) and the
    subclasses of an inherited discriminator are closed; only for programs with such a union"""
    from vf.harness.common import program_of
    from vf.specs import walk

    if failure.get("kind") not in ("deser-accepts-schema-rejects", "deser-rejects-schema-accepts", "output-invalid-against-schema"):
        return False
    if not any(s.k == "disc" for s in walk(program_of(job).spec)):
        return False
    return _rerun(job, failure, repair_disc=True) or _rerun(job, failure, repair_disc=True, repair=True)


def discriminated_subclass_alone(job, failure) -> bool:
    """C06 / C07: a subclass of a discriminated class used on its own (not through the
    parent): the disagreement disappears when its schema is the plain closed object, without
    the reference to the parent that requires the discriminator property"""
    from vf.harness.common import program_of
    from vf.specs import walk

    if failure.get("kind") not in ("deser-accepts-schema-rejects", "deser-rejects-schema-accepts", "output-invalid-against-schema"):
        return False
    if any(s.k == "disc" for s in walk(program_of(job).spec)):
        return False
    return _rerun(job, failure, repair_lone=True)


def mapping_key_constraints_not_in_schema(job, failure) -> bool:
    """C06: the schema of a Mapping whose keys are constrained (pattern, Literal / Enum keys)
    does not restrict the key names: the disagreement disappears when the reference stops
    checking mapping keys, and the strict reference agrees with deserialize"""
    if failure.get("kind") != "deser-rejects-schema-accepts":
        return False
    return _explained(job, failure, "map_keys_unchecked")


def passthrough_drops_discriminator(job, failure) -> bool:
    """C08: PassThroughOptions(dataclasses=True) hands the member of a discriminated union
    over untouched, and serialization_default() completes it without the discriminator key;
    identified by: the two results are equal once the discriminator keys are removed"""
    from vf.harness.common import program_of
    from vf.specs import walk

    if failure.get("kind") != "passthrough-changes-result" or not job.get("opts", {}).get("flags", {}).get("dataclasses"):
        return False
    aliases = {s.opt("alias") for s in walk(program_of(job).spec) if s.k == "disc"}
    if not aliases:
        return False

    def strip(x):
        if isinstance(x, dict):
            return {k: strip(v) for k, v in x.items() if k not in aliases}
        if isinstance(x, list):
            return [strip(v) for v in x]
        return x

    ex = failure.get("extra", {})
    return "plain" in ex and strip(ex["plain"]) == strip(ex["other"]) and ex["plain"] != ex["other"]


def graphql_resolver_only_recursion(job, failure) -> bool:
    """C19 build case: a type recursive only through a resolver's return type"""
    return (
        job.get("case") == "resolver_recursion"
        and failure.get("kind") == "schema-build-raises"
        and failure.get("extra", {}).get("exc") == "RecursionError"
    )


def union_order_cache_conflation(job, failure) -> bool:
    """C13: Union[A, B] == Union[B, A] for typing, and the method caches are keyed by the type:
    the union compiled first in the process decides the order of the alternatives of both;
    identified by: the failure needs the reversed union compiled first and disappears without"""
    if not job.get("opts", {}).get("warm_swapped") or failure.get("kind") != "value-differs-from-first-accepting":
        return False
    from vf.engine import run_concrete
    from vf.run import harness_module
    import apischema.cache

    job2 = dict(job, opts={k: v for k, v in job["opts"].items() if k != "warm_swapped"})
    apischema.cache.reset()
    try:
        fail, _ = run_concrete(harness_module(job2["harness"]).make(job2).body, failure["inputs"])
    except Exception:
        return False
    finally:
        apischema.cache.reset()
    return fail is None


def dependent_required_exclude_defaults(job, failure) -> bool:
    """C07: the output validates once dependentRequired is removed from the schema, and
    the job runs with exclude_defaults"""
    if not job.get("opts", {}).get("exclude_defaults"):
        return False
    # on a discriminated union the discriminator-schema finding applies to the same output:
    # the two recorded defects together must explain the failure
    return _rerun(job, failure, drop_dependent_required=True) or _rerun(
        job, failure, drop_dependent_required=True, repair_disc=True
    )


def decimal_through_float(job, failure) -> bool:
    """C05 std: a Decimal that is not exactly a binary float cannot come back"""
    if job.get("std") != "Decimal":
        return False
    import re
    from decimal import Decimal

    decs = re.findall(r"Decimal\('([^']*)'\)", str(failure.get("witness")))
    return any(Decimal(float(Decimal(x))) != Decimal(x) for x in decs)


def any_position_not_copied(job, failure) -> bool:
    """C08: with no_copy=False, data met at an Any-typed position (or an undeclared
    TypedDict key under additional_properties) is returned as is; the sharing disappears
    when AnyMethod copies"""
    if not str(failure.get("kind", "")).startswith("shares-container"):
        return False
    import copy

    from apischema.deserialization import methods as M

    orig = M.AnyMethod.deserialize

    def copying(self, data):
        return copy.deepcopy(orig(self, data))

    M.AnyMethod.deserialize = copying
    try:
        return _rerun(job, failure)
    finally:
        M.AnyMethod.deserialize = orig


def coerce_unique_on_raw_data(job, failure) -> bool:
    """C14: container constraints are evaluated on the data *before* element coercion;
    identified by: coercion accepts, the strict run on the normalised datum reports only
    uniqueItems"""
    if failure.get("kind") != "coerce-accepts-beyond-table":
        return False
    from apischema import settings

    ref = failure.get("extra", {}).get("strict_on_normalised")
    if isinstance(ref, dict):
        ref = ref.get("__tuple__")
    if not ref or ref[0] != "err":
        return False
    return all(e.get("err") == settings.errors.unique_items for e in ref[1])


def draft7_unevaluated_properties(job, failure) -> bool:
    return (
        failure.get("kind") == "foreign-vocabulary"
        and job.get("version") == "draft-07"
        and "['unevaluatedProperties']" in str(failure.get("detail"))
    )


def oas30_bare_null_type(job, failure) -> bool:
    return (
        failure.get("kind") == "foreign-vocabulary"
        and job.get("version") == "openapi-3.0"
        and "type null is not OpenAPI 3.0" in str(failure.get("detail"))
    )


def graphql_enum_default_argument(job, failure) -> bool:
    """C19: a resolver parameter whose default is an Enum member: when the argument is not
    given, the resolver receives the enum *value* (the default is exposed to graphql-core in
    serialized form, which is not the internal value of a GraphQL enum)"""
    if failure.get("kind") != "resolver-not-invoked-with-deserialized-arguments":
        return False
    wit = failure.get("witness") or {}
    log = failure.get("extra", {}).get("log")
    return isinstance(wit, dict) and "color" not in wit and "Color." not in str(log) and "'find'" in str(log)


def per_call_validators_ignored_on_objects(job, failure) -> bool:
    """C01: validators= passed to deserialize() for an object type never run"""
    if not job.get("opts", {}).get("call_validators") or failure.get("kind") != "accepts-nonconforming":
        return False
    from vf import pools

    spec, _ = pools.get(job["pool"], job["pid"])
    ref = failure.get("extra", {}).get("ref_errors")
    return spec.k == "obj" and "validator" in str(ref) and len(ref) == 1


def deep_nesting_recursion_error(job, failure) -> bool:
    return job.get("variant") == "deep" and failure.get("extra", {}).get("exc") == "RecursionError"


def graphql_subclass_resolves_as_parent(job, failure) -> bool:
    """C19: an instance of a subclass of another object type of the schema is resolved as
    the parent type (is_type_of is isinstance; graphql-core takes the first match)"""
    if failure.get("kind") != "interface-typename-differs":
        return False
    ex = failure.get("extra", {})
    return ex.get("expected", {}).get("__typename") == "Employee" and ex.get("data", {}).get("__typename") == "Plain"


def bytes_key_in_error_loc(job, failure) -> bool:
    """C03: the only malformation of `errors` is a loc element that is a bytes key of the
    data itself (the harness names that case; any other malformed entry is not this)"""
    return (
        failure.get("kind") == "errors-malformed"
        and failure.get("detail") == "loc element is a bytes key of the data (not JSON-serializable)"
    )
