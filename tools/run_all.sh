#!/bin/bash
# tools/run_all.sh [tier]: every claimed check in sequence, evidence rewritten; summary lines only
cd "$(dirname "$0")/.."
tier=${1:-quick}
for p in $(python3 -c "import json; print(' '.join(c['property_id'] for c in json.load(open('MANIFEST.json'))['checks']))"); do
  out=$(./check $p --tier $tier 2>&1); rc=$?
  echo "$out" | grep -E "^SUMMARY|^VIOLATION|^HARNESS|^VACUOUS" | cut -c1-300
  echo "   exit=$rc"
done
