#!/bin/bash
# tools/collect_seed.sh <worktree> <seed-id> <PROP> [<PROP>...]
# copies <worktree>/seed_out to /verif/seeded/<seed-id>, confirms the three facts (tests green
# with the change, demo fails with it, demo passes without it) on /repo itself and runs the
# named quick checks against the change (tools/try_seed.sh).  Never commits to /repo.
set -u
wt=$1; id=$2; shift 2
VERIF="$(cd "$(dirname "$0")/.." && pwd)"
dst="$VERIF/seeded/$id"
mkdir -p "$dst"
cp "$wt/seed_out/patch.diff" "$wt/seed_out/demo.py" "$dst/" || exit 2
[ -f "$wt/seed_out/notes.md" ] && cp "$wt/seed_out/notes.md" "$dst/"
sed -i "s#$wt#/repo#g" "$dst/demo.py"
( cd /repo && PYTHONPATH=/repo /venv/bin/python "$dst/demo.py" >/dev/null 2>&1; echo "demo exit (without change): $?" ) | tee "$dst/last_run.txt"
"$VERIF/tools/try_seed.sh" "$dst" "$@" 2>&1 | tee -a "$dst/last_run.txt"
