"""C15: field-set tracking reflects the input and drives exclude_unset (DESIGN.md 4/C15).
A small state machine (patched __new__/__init__/__setattr__, set/unset helpers, replace) is
driven by bounded operation sequences; the model is plain set algebra from the documentation."""
from __future__ import annotations

from typing import Optional

from vf.engine import Ctx, Failure
from vf.harness.common import bounds_of, method_classes, self_of

SRC = '''
from dataclasses import dataclass, field, InitVar, KW_ONLY
from typing import Optional
from apischema.fields import with_fields_set, fields_set, set_fields, unset_fields, is_set
from apischema.metadata import default_as_set, init_var
from apischema.dataclasses import replace

@with_fields_set
@dataclass
class Plain:
    a: int
    b: Optional[int] = None
    c: int = field(default=7, metadata=default_as_set)

@dataclass
class UBase:
    a: int
    b: Optional[int] = None

@with_fields_set
@dataclass
class DecoratedChild(UBase):
    c: int = 0

@with_fields_set
@dataclass
class DBase:
    a: int
    b: Optional[int] = None

@dataclass
class UndecoratedChild(DBase):
    c: int = 0

@with_fields_set
@dataclass
class WithInit:
    a: int
    iv: InitVar[int] = 1
    b: Optional[int] = None
    total: int = field(default=0, init=False)

    def __post_init__(self, iv):
        self.total = self.a + iv

@dataclass
class KBase:
    a: int
    _: KW_ONLY
    verbose: int = 0

@with_fields_set
@dataclass
class KChild(KBase):
    name: int = 0
    mid: int = field(default=0, kw_only=True)
'''

# name -> (init-able fields in order with default flag, initvars, always-set fields, serialized fields)
CLASSES = {
    "Plain": dict(params=[("a", False), ("b", True), ("c", True)], initvars=set(), always={"c"}, ser=["a", "b", "c"]),
    "DecoratedChild": dict(params=[("a", False), ("b", True), ("c", True)], initvars=set(), always=set(), ser=["a", "b", "c"]),
    # not itself decorated: the statement does not pin its set; checked for superset / no error
    "UndecoratedChild": dict(params=[("a", False), ("b", True), ("c", True)], initvars=set(), always=set(), ser=["a", "b", "c"], weak=True),
    "WithInit": dict(params=[("a", False), ("iv", True), ("b", True)], initvars={"iv"}, always={"total"}, ser=["a", "b", "total"], post={"total"}),
    # keyword-only fields: the generated __init__ puts them last, whatever the field order
    "KChild": dict(params=[("a", False), ("name", True), ("verbose", True), ("mid", True)], kwonly={"verbose", "mid"},
                   initvars=set(), always=set(), ser=["a", "verbose", "name", "mid"]),
}
OPS = ["set", "unset", "assign", "replace", "set_overwrite"]


def jobs(prop, tier, seed):
    out = []
    for name in CLASSES:
        for start in ("deserialize", "kwargs", "positional"):
            n = 2 if tier == "quick" else 3
            out.append(dict(harness="C15", pid=name, variant=start, opts={"ops": n}, bounds={}, budget_s=(120 if name == "KChild" else 60) if tier == "quick" else 300))
    return out


class Inst:
    def __init__(self, job):
        import sys
        import types

        from apischema import deserialization_method, serialization_method

        self.method_note = 'operation kinds / field indices enumerated by forks; values and key presence symbolic'
        self.job = job
        mod = types.ModuleType("vf_c15_prog")
        sys.modules[mod.__name__] = mod
        exec(SRC, mod.__dict__)
        self.mod = mod
        self.cls = getattr(mod, job["pid"])
        self.M = CLASSES[job["pid"]]
        self.de = deserialization_method(self.cls)
        self.se = serialization_method(self.cls)
        self.se_all = serialization_method(self.cls, exclude_unset=False)
        self.nops = job["opts"]["ops"]
        self.functions = [
            "apischema.fields.with_fields_set.new_new", "apischema.fields.with_fields_set.new_init",
            "apischema.fields.with_fields_set.new_setattr", "apischema.fields.set_fields", "apischema.fields.unset_fields",
            "apischema.fields.fields_set", "apischema.dataclasses.replace",
        ] + method_classes(self_of(self.de)) + method_classes(self_of(self.se))
        self.expect_tags = ["checked"]
        self.assumptions = ["operation kinds and field indices are forked (enumerated), values and key presence are symbolic"]
        self.relax = ()

    def check(self, o, model, step) -> Optional[Failure]:
        fs = self.mod.fields_set(o)
        if self.M.get("weak"):
            if not model <= set(fs):
                return Failure("fields_set-misses-a-set-field", witness=step, extra={"fields_set": sorted(fs), "model": sorted(model)})
            return None
        if set(fs) != model:
            return Failure("fields_set-differs", witness=step, extra={"fields_set": sorted(fs), "model": sorted(model)})
        out = self.se(o)
        exp_keys = [k for k in self.M["ser"] if k in model]
        if list(out) != exp_keys:
            return Failure("exclude_unset-emits-wrong-keys", witness=step, extra={"emitted": list(out), "model": exp_keys})
        out_all = self.se_all(o)
        if list(out_all) != self.M["ser"]:
            return Failure("exclude_unset=False-does-not-emit-all", witness=step, extra={"emitted": list(out_all)})
        for k in exp_keys:
            if out[k] != getattr(o, k) and not (out[k] is None and getattr(o, k) is None):
                return Failure("emitted-value-differs", witness=step, extra={"key": k})
        return None

    def body(self, ctx: Ctx) -> Optional[Failure]:
        M, mod = self.M, self.mod
        history = []
        given = {}
        for name, has_default in M["params"]:
            if not has_default or ctx.flag("given"):
                given[name] = ctx.int(name)
        start = self.job["variant"]
        ctx.run_phase()
        if start == "deserialize":
            o = self.de(dict(given))
        elif start == "kwargs":
            o = self.cls(**given)
        else:
            # positional arguments: a prefix of the parameters
            names = [n for n, _ in M["params"]]
            k = 0
            kwonly = M.get("kwonly", set())
            while k < len(names) and names[k] in given and names[k] not in kwonly:
                k += 1
            kw = {n: given[n] for n in kwonly if n in given}
            given = {**{n: given[n] for n in names[:k]}, **kw}
            o = self.cls(*[given[n] for n in names[:k]], **kw)
        history.append([start, sorted(given)])
        model = (set(given) - M["initvars"]) | M["always"]
        ctx.notes["tag:checked"] = True
        ctx.witness = history
        f = self.check(o, model, history)
        if f:
            return f
        fields = M["ser"]
        for _ in range(self.nops):
            op = ctx.pick(OPS, "op")
            name = ctx.pick(fields, "field")
            history.append([op, name])
            if op == "set":
                mod.set_fields(o, name)
                model = model | {name}
            elif op == "set_overwrite":
                mod.set_fields(o, name, overwrite=True)
                model = {name}
            elif op == "unset":
                mod.unset_fields(o, name)
                model = model - {name}
            elif op == "assign":
                setattr(o, name, ctx.int("v"))
                model = model | {name}
            else:
                if name in M.get("post", ()):
                    continue  # init=False fields cannot be replaced
                o = mod.replace(o, **{name: ctx.int("v")})
                model = model | {name}
            f = self.check(o, model, history)
            if f:
                return f
        return None


def make(job):
    return Inst(job)
