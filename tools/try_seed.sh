#!/bin/bash
# tools/try_seed.sh <seed-dir> <PROP> [<PROP>...]: apply a seeded change to /repo, run the
# quick checks without touching evidence, undo the change.  Never commits to /repo.
set -u
seed=$1; shift
REPO="${VF_REPO:-/repo}"
VERIF="$(cd "$(dirname "$0")/.." && pwd)"
cd "$REPO" || exit 2
if [ -n "$(git status --porcelain --untracked-files=no)" ]; then echo "repo dirty"; exit 2; fi
if ! git apply --check "$seed/patch.diff" 2>/dev/null; then
  if ! patch -p1 --dry-run -s < "$seed/patch.diff" >/dev/null 2>&1; then echo "PATCH-DOES-NOT-APPLY $seed"; exit 2; fi
  patch -p1 -s < "$seed/patch.diff"
else
  git apply "$seed/patch.diff"
fi
trap 'cd "$REPO" && git checkout -- . && find . -name "*.orig" -delete' EXIT
t=$(/venv/bin/python -m pytest -q -p no:cacheprovider 2>&1 | tail -1)
echo "tests: $t"
if [ -f "$seed/demo.py" ]; then (cd "$REPO" && PYTHONPATH="$REPO" /venv/bin/python "$seed/demo.py" >/dev/null 2>&1; echo "demo exit (with change): $?"); fi
cd "$VERIF"
for p in "$@"; do
  out=$(./check "$p" --tier quick --no-evidence ${VF_ONLY:+--only "$VF_ONLY"} 2>&1)
  rc=$?
  echo "== $p exit=$rc"
  echo "$out" | grep -E "^VIOLATION|^SUMMARY|^HARNESS|^VACUOUS" | head -6
  echo "$out" | grep -A1 "^VIOLATION" | grep "^  program" | head -4
done
