"""C11: a field has one external name across every view (DESIGN.md 4/C11).

ext(f) = aliaser(class_aliaser(alias or name)) is computed by the reference from the user's
own functions.  variants:
  deser - symbolic data whose keys range over the external name *and* the confusable names
          (raw name, raw alias, class-aliased only, dynamically aliased only): deserialize
          consumes exactly the external keys; the others are unexpected, the field missing,
          at loc ext (C01 + C02 assertions on the alias pool)
  ser   - symbolic values: serialize emits exactly the external keys (C04 assertions)
  views - concrete side conditions per program: properties / required / dependentRequired of
          both schemas, GraphQL output field names under the GraphQL aliaser
"""
from __future__ import annotations

from typing import Optional

from vf import pools
from vf.engine import Ctx, Failure
from vf.harness import C04, deser_e2e
from vf.harness.common import get_aliaser, program_of
from vf.specs import Sp, is_required, named, static_alias, walk

DYN = ["identity", "camel", "prefix"]


def jobs(prop, tier, seed):
    out = []
    q = tier == "quick"
    for pid in pools.ids("alias", tier):
        for dyn in DYN:
            o = {} if dyn == "identity" else {"aliaser": dyn}
            b = dict(depth=2, width=1, strlen=2, budget=1 if q else 2, alias_confusion=True)
            for sub in ("C01", "C02"):
                out.append(dict(harness="C11", variant="deser", sub=sub, pool="alias", pid=pid, opts=o, bounds=b, budget_s=60 if q else 240))
            out.append(dict(harness="C11", variant="ser", pool="alias", pid=pid, opts=o, bounds=dict(depth=2, width=1, strlen=2), budget_s=40 if q else 120))
            out.append(dict(harness="C11", variant="views", pool="alias", pid=pid, opts=o, bounds={}, budget_s=30))
    return out


class Deser(deser_e2e.Inst):
    def __init__(self, job):
        super().__init__(job)
        self.prop = job["sub"]


def ext_names(spec: Sp, dyn, serialization=False):
    """ordered external names of the (non aggregate) fields of the root object, and those
    of its flattened children"""
    defs = named(spec)
    root = spec
    while root.k in ("list", "map", "opt"):
        root = root.a[-1]
    names, required = [], []

    def rec(o):
        for f in o.a:
            if f.flatten:
                sub = f.sp
                while sub.k in ("ref", "opt"):
                    sub = defs[sub.opt("name")] if sub.k == "ref" else sub.a[0]
                continue
            n = dyn(static_alias(o, f))
            names.append(n)
            if is_required(o, f):
                required.append(n)

    rec(root)
    return root, names, required


class Views:
    def __init__(self, job):
        self.method_note = 'concrete side conditions per program (schemas, GraphQL names): no symbolic input'
        self.job = job
        self.prog = program_of(job)
        self.dyn = get_aliaser(job.get("opts", {}).get("aliaser")) or (lambda s: s)
        self.functions = [
            "apischema.objects.visitor.ObjectVisitor._object (class aliaser)",
            "apischema.json_schema.schema.SchemaBuilder.object",
            "apischema.graphql.schema.OutputSchemaBuilder.object",
        ]
        self.expect_tags = ["checked"]
        self.assumptions = ["concrete side conditions per program (flagged): no symbolic input"]
        self.relax = ()

    def body(self, ctx: Ctx) -> Optional[Failure]:
        from crosshair.tracers import NoTracing

        ctx.notes["tag:checked"] = True
        ctx.run_phase()
        if ctx.concrete is not None:
            return self.concrete()
        with NoTracing():
            return self.concrete()

    def concrete(self):
        from apischema.json_schema import deserialization_schema, serialization_schema

        root, names, required = ext_names(self.prog.spec, self.dyn)
        cls = self.prog.cls(root.opt("name"))
        kw = {}
        if self.job.get("opts", {}).get("aliaser"):
            kw["aliaser"] = self.dyn
        for which, fn in (("deserialization", deserialization_schema), ("serialization", serialization_schema)):
            sch = fn(cls, **kw)
            objs = [sch] + list(sch.get("allOf", []))
            objs = [sch.get("$defs", {}).get(o["$ref"].rsplit("/", 1)[-1], o) if "$ref" in o else o for o in objs]
            props = [k for o in objs for k in o.get("properties", {})]
            flat_names = self.flat_names(root)
            if sorted(props) != sorted(names + flat_names):
                return Failure(f"{which}-schema-properties", witness=None, extra={"properties": props, "external": names + flat_names})
            req = [k for o in objs for k in o.get("required", [])]
            if which == "deserialization" and sorted(r for r in req if r in names) != sorted(required):
                return Failure("schema-required", witness=None, extra={"required": req, "external": required})
            bad = self.default_keys(sch, sch)
            if bad:
                return Failure(f"{which}-schema-default-keys", witness=None, extra={"default": bad[0], "properties": bad[1]})
            dr = {k: v for o in objs for k, v in o.get("dependentRequired", {}).items()}
            exp_dr = {}
            for fname, needed in root.opt("dependent_required", ()):
                by = {f.name: f for f in root.a}
                exp_dr[self.dyn(static_alias(root, by[fname]))] = sorted(self.dyn(static_alias(root, by[n])) for n in needed)
            if {k: sorted(v) for k, v in dr.items()} != exp_dr:
                return Failure(f"{which}-schema-dependentRequired", witness=None, extra={"dependentRequired": dr, "external": exp_dr})
        # GraphQL output object under the GraphQL aliaser
        if any("$" in n for n in names):
            return None  # '$' is not legal in a GraphQL name: the model is not GraphQL-compatible
        from apischema.graphql import graphql_schema

        ns = self.prog.module.__dict__
        exec(f"def vf_root() -> {root.opt('name')}:\n    ...\n", ns)
        gql_al = self.dyn if kw else None
        gs = graphql_schema(query=[ns["vf_root"]], **({"aliaser": gql_al} if gql_al else {"aliaser": lambda s: s}))
        gtype = gs.type_map[root.opt("name")]
        gnames = list(gtype.fields)
        exp = [n for n in names if not n.startswith("$")] + [n for n in self.flat_names(root) if not n.startswith("$")]
        if any(n.startswith("$") for n in names):
            return None  # '$' is not a legal GraphQL name: the model is not GraphQL-compatible
        if sorted(gnames) != sorted(exp):
            return Failure("graphql-field-names", witness=None, extra={"graphql": gnames, "external": exp})
        return None

    def default_keys(self, root, node):
        """an object-valued `default` shows the fields of the object under the names its own
        schema declares (one external name in every view)"""
        if isinstance(node, list):
            for v in node:
                bad = self.default_keys(root, v)
                if bad:
                    return bad
            return None
        if not isinstance(node, dict):
            return None
        target = node
        if "$ref" in target:
            target = root.get("$defs", {}).get(str(target["$ref"]).rsplit("/", 1)[-1], {})
        if isinstance(node.get("default"), dict) and "properties" in target and not target.get("patternProperties") and target.get("additionalProperties", False) is False:
            if not set(node["default"]) <= set(target["properties"]):
                return node["default"], sorted(target["properties"])
        for k, v in node.items():
            if k != "default":
                bad = self.default_keys(root, v)
                if bad:
                    return bad
        return None

    def flat_names(self, root):
        defs = named(self.prog.spec)
        out = []
        for f in root.a:
            if f.flatten:
                sub = f.sp
                while sub.k in ("ref", "opt"):
                    sub = defs[sub.opt("name")] if sub.k == "ref" else sub.a[0]
                out += [self.dyn(static_alias(sub, g)) for g in sub.a]
        return out


def make(job):
    v = job["variant"]
    return Deser(job) if v == "deser" else C04.Inst(job) if v == "ser" else Views(job)
