"""A JSON Schema evaluator for exactly the keywords apischema can emit (DESIGN.md 3.3),
written from the JSON Schema specifications (2020-12, 2019-09, draft-07) and the OpenAPI
3.0 schema object rules.  It runs on symbolic instances: it never hashes an instance leaf.

Cross-checked on every run against the independent `jsonschema` library on realised
(schema, instance, verdict) triples (vf/jscheck.py); a disagreement is a harness error.
"""
from __future__ import annotations

from typing import Any, Optional, Set, Tuple

from vf.oracle.deser import PATTERNS, _unique, jkind

D2020, D2019, D7, OAS30, OAS31 = "2020-12", "2019-09", "draft-07", "openapi-3.0", "openapi-3.1"

KNOWN_KEYWORDS = {
    "type", "enum", "const", "anyOf", "oneOf", "allOf", "$ref", "$defs", "definitions", "properties", "required",
    "additionalProperties", "patternProperties", "unevaluatedProperties", "dependentRequired", "dependencies",
    "items", "prefixItems", "additionalItems", "minimum", "maximum", "exclusiveMinimum", "exclusiveMaximum",
    "multipleOf", "minLength", "maxLength", "pattern", "minItems", "maxItems", "uniqueItems", "minProperties",
    "maxProperties", "nullable",
}
ANNOTATIONS = {
    "$schema", "title", "description", "default", "examples", "example", "format", "deprecated", "readOnly",
    "writeOnly", "contentEncoding", "contentMediaType", "discriminator",
}


class DanglingRef(Exception):
    pass


class UnsupportedSchema(Exception):
    pass


class IllFounded(DanglingRef):
    """a $ref reached again on the same instance without consuming any of it: the schema
    has no meaning (validators recurse forever)"""


class OutsideDomain(Exception):
    """instance outside the common semantic domain of the property (assumed away)"""


def json_equal(a, b) -> bool:
    ka, kb = jkind(a), jkind(b)
    na, nb = ka in ("int", "float"), kb in ("int", "float")
    if na and nb:
        return a == b
    if ka != kb:
        return False
    if ka == "list":
        return len(a) == len(b) and all(json_equal(x, y) for x, y in zip(a, b))
    if ka == "dict":
        if len(a) != len(b):
            return False
        for k in a:
            if k not in b or not json_equal(a[k], b[k]):
                return False
        return True
    return a == b


class Evaluator:
    def __init__(self, root: dict, dialect: str = D2020, defs: Optional[dict] = None):
        self.root = root
        self.dialect = dialect
        self.defs = defs  # external definitions (OpenAPI components)
        self.active = []  # ($ref, id(instance)) being evaluated

    def valid(self, inst) -> bool:
        ok, _ = self.ev(self.root, inst)
        return ok

    # ------------------------------------------------------------------------ refs
    def resolve(self, ref: str):
        for prefix, key in (("#/$defs/", "$defs"), ("#/definitions/", "definitions")):
            if ref.startswith(prefix):
                name = ref[len(prefix):]
                table = self.root.get(key, {})
                if name not in table:
                    raise DanglingRef(ref)
                return table[name]
        if ref.startswith("#/components/schemas/"):
            name = ref[len("#/components/schemas/"):]
            if self.defs is None or name not in self.defs:
                raise DanglingRef(ref)
            return self.defs[name]
        raise DanglingRef(ref)

    # ------------------------------------------------------------------------ core
    def ev(self, sch, x) -> Tuple[bool, Set[str]]:
        """-> (valid, property names evaluated by this schema for object x)"""
        if sch is True:
            return True, set()
        if sch is False:
            return False, set()
        if not isinstance(sch, dict):
            raise UnsupportedSchema(repr(sch))
        for k in sch:
            if k not in KNOWN_KEYWORDS and k not in ANNOTATIONS:
                raise UnsupportedSchema(k)
        d = self.dialect
        kx = jkind(x)
        if "$ref" in sch:
            target = self.resolve(sch["$ref"])
            key = (sch["$ref"], id(x))
            if key in self.active:
                raise IllFounded(sch["$ref"])
            self.active.append(key)
            try:
                ok, evd = self.ev(target, x)
            finally:
                self.active.pop()
            if d == D7 or d == OAS30:
                return ok, evd  # siblings of $ref are ignored in draft-07 / OpenAPI 3.0
            if not ok:
                return False, set()
            evaluated = set(evd)
        else:
            evaluated = set()
        if d == OAS30 and kx == "null":
            if sch.get("nullable") is True:
                return True, evaluated
        ok = True
        # -- type
        if "type" in sch:
            t = sch["type"]
            types = [t] if isinstance(t, str) else list(t)
            if not any(self.is_type(str(tt), x, kx) for tt in types):
                return False, set()
        if "enum" in sch and not any(json_equal(x, v) for v in sch["enum"]):
            return False, set()
        if "const" in sch and not json_equal(x, sch["const"]):
            return False, set()
        # -- applicators
        if "allOf" in sch:
            for sub in sch["allOf"]:
                o, e = self.ev(sub, x)
                if not o:
                    return False, set()
                evaluated |= e
        if "anyOf" in sch:
            hit = False
            for sub in sch["anyOf"]:
                o, e = self.ev(sub, x)
                if o:
                    hit = True
                    evaluated |= e
            if not hit:
                return False, set()
        if "oneOf" in sch:
            n = 0
            for sub in sch["oneOf"]:
                o, e = self.ev(sub, x)
                if o:
                    n += 1
                    evaluated |= e
            if n != 1:
                return False, set()
        # -- numbers
        if kx in ("int", "float"):
            if kx == "float" and x != x:
                raise OutsideDomain("NaN")
            if "minimum" in sch and x < sch["minimum"]:
                return False, set()
            if "maximum" in sch and x > sch["maximum"]:
                return False, set()
            if "exclusiveMinimum" in sch and x <= sch["exclusiveMinimum"]:
                return False, set()
            if "exclusiveMaximum" in sch and x >= sch["exclusiveMaximum"]:
                return False, set()
            if "multipleOf" in sch:
                if kx == "float":
                    raise OutsideDomain("multipleOf on a float")
                if x % sch["multipleOf"] != 0:
                    return False, set()
        # -- strings
        if kx == "str":
            if "minLength" in sch and len(x) < sch["minLength"]:
                return False, set()
            if "maxLength" in sch and len(x) > sch["maxLength"]:
                return False, set()
            if "pattern" in sch and not self.match(sch["pattern"], x):
                return False, set()
        # -- arrays
        if kx == "list":
            if "minItems" in sch and len(x) < sch["minItems"]:
                return False, set()
            if "maxItems" in sch and len(x) > sch["maxItems"]:
                return False, set()
            if sch.get("uniqueItems") is True and not _unique(x):
                return False, set()
            if d in (D2020, OAS31):
                prefix = sch.get("prefixItems", [])
                rest = sch.get("items", True)
            else:
                it = sch.get("items", True)
                if isinstance(it, list):
                    prefix, rest = it, sch.get("additionalItems", True)
                else:
                    prefix, rest = [], it
            for i, item in enumerate(x):
                sub = prefix[i] if i < len(prefix) else rest
                o, _ = self.ev(sub, item)
                if not o:
                    return False, set()
        # -- objects
        if kx == "dict":
            if "minProperties" in sch and len(x) < sch["minProperties"]:
                return False, set()
            if "maxProperties" in sch and len(x) > sch["maxProperties"]:
                return False, set()
            for r in sch.get("required", []):
                if r not in x:
                    return False, set()
            dep = {}
            if d in (D7,):
                dep = sch.get("dependencies", {})
            elif d in (D2020, D2019, OAS31):
                dep = sch.get("dependentRequired", {})
            for k, reqs in dep.items():
                if k in x:
                    if isinstance(reqs, dict):
                        o, _ = self.ev(reqs, x)
                        if not o:
                            return False, set()
                    else:
                        for r in reqs:
                            if r not in x:
                                return False, set()
            props = sch.get("properties", {})
            pats = sch.get("patternProperties", {})
            local = set()
            for k in x:
                if not isinstance(k, str):
                    raise OutsideDomain("non-string key")
                hit = False
                if k in props:
                    hit = True
                    o, _ = self.ev(props[k], x[k])
                    if not o:
                        return False, set()
                for p, sub in pats.items():
                    if self.search(p, k):
                        hit = True
                        o, _ = self.ev(sub, x[k])
                        if not o:
                            return False, set()
                if hit:
                    local.add(k)
                elif "additionalProperties" in sch:
                    o, _ = self.ev(sch["additionalProperties"], x[k])
                    if not o:
                        return False, set()
                    local.add(k)
            evaluated |= local
            if "unevaluatedProperties" in sch and d in (D2020, D2019, OAS31):
                for k in x:
                    if k not in evaluated:
                        o, _ = self.ev(sch["unevaluatedProperties"], x[k])
                        if not o:
                            return False, set()
                        evaluated.add(k)
        return ok, evaluated

    def is_type(self, t: str, x, kx) -> bool:
        if t == "null":
            return kx == "null"
        if t == "boolean":
            return kx == "bool"
        if t == "string":
            return kx == "str"
        if t == "array":
            return kx == "list"
        if t == "object":
            return kx == "dict"
        if t == "number":
            return kx in ("int", "float")
        if t == "integer":
            if kx == "float":
                if x != x or x in (float("inf"), float("-inf")):
                    return False
                if x == int(x):
                    raise OutsideDomain("integer-valued float")
                return False
            return kx == "int"
        raise UnsupportedSchema("type " + t)

    def match(self, pattern: str, s) -> bool:
        """`pattern` keyword on the common domain: start-anchored patterns"""
        if pattern not in PATTERNS:
            raise UnsupportedSchema("pattern " + pattern)
        return PATTERNS[pattern](s)

    def search(self, pattern: str, key: str) -> bool:
        """patternProperties on concrete keys (regex search semantics)"""
        import re

        return re.search(pattern, key) is not None
