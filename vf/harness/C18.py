"""C18: schema dialect conversion preserves the set of valid instances (DESIGN.md 4/C18).

Both schemas are generated concretely by the real builder (2020-12 and the target version,
through the recursive LazyConversion); the datum is symbolic and judged by the evaluator of
each dialect.  Vocabulary / reference-prefix conformance is a concrete side condition
checked once per job (flagged as such)."""
from __future__ import annotations

from typing import Optional

from vf import pools
from vf.engine import Assume, Ctx, Failure
from vf.harness.C06 import plain_json
from vf.harness.common import bounds_of, program_of, ref_opts
from vf.harness.deser_e2e import has_obj, n_positions
from vf.oracle.jsvalid import D7, D2019, D2020, OAS30, OAS31, DanglingRef, Evaluator, OutsideDomain
from vf.specs import walk
from vf.sym import Gen

VERSIONS = {D2019: "DRAFT_2019_09", D7: "DRAFT_7", OAS31: "OPEN_API_3_1", OAS30: "OPEN_API_3_0"}
FOREIGN = {
    D2019: {"prefixItems", "definitions", "dependencies", "nullable", "example"},
    D7: {"prefixItems", "$defs", "dependentRequired", "unevaluatedProperties", "nullable", "example"},
    OAS31: {"definitions", "dependencies", "nullable", "example", "additionalItems"},
    OAS30: {"prefixItems", "$defs", "definitions", "dependentRequired", "dependencies", "unevaluatedProperties", "additionalItems", "const", "examples"},
}
PREFIX = {D2019: "#/$defs/", D7: "#/definitions/", OAS31: "#/components/schemas/", OAS30: "#/components/schemas/"}
SCHEMA_URI = {D2019: "2019-09", D7: "draft-07"}


def jobs(prop, tier, seed):
    out = []
    q = tier == "quick"
    data_ids = pools.ids("data", tier)
    todo = [("data", pid) for pid in data_ids + pools.random_ids(seed, 8 if tier == "quick" else 60)]
    todo += [("union", pid) for pid in pools.ids("union", tier) if pid not in data_ids]
    # serialization-side objects (serialized methods, one-way fields): merged definitions
    todo += [("ser", pid) for pid in pools.SER_OBJECTS if has_obj(pools.get("ser", pid)[0])]
    for pool, pid in todo:
        spec, _ = pools.get(pool, pid)
        if any(s.k == "obj" and any(f.fall_back for f in s.a) for s in walk(spec)):
            continue
        big = n_positions(spec) >= 8
        for v in VERSIONS:
            b = dict(depth=2, width=2, strlen=2, budget=1 if (q or big) else 2, distinct_sets=True)
            out.append(dict(harness="C18", pool=pool, pid=pid, version=v, opts={}, bounds=b, budget_s=20 if q else 120))
    return out


def walk_schema(s, path=()):
    """(path, sub-schema) for every schema object, at every nesting level"""
    if isinstance(s, dict):
        yield path, s
        for k, v in s.items():
            if k in ("properties", "patternProperties", "$defs", "definitions", "dependencies"):
                if isinstance(v, dict):
                    for kk, vv in v.items():
                        yield from walk_schema(vv, path + (k, kk))
            elif k in ("items", "additionalItems", "additionalProperties", "unevaluatedProperties", "prefixItems", "anyOf", "oneOf", "allOf", "not"):
                if isinstance(v, list):
                    for i, vv in enumerate(v):
                        yield from walk_schema(vv, path + (k, i))
                else:
                    yield from walk_schema(v, path + (k,))


def strip_dropped(s):
    """the 2020-12 schema without what OpenAPI 3.0 cannot express and drops explicitly"""
    if isinstance(s, dict):
        out = {}
        for k, v in s.items():
            if k in ("dependentRequired", "unevaluatedProperties"):
                continue
            if k == "items" and "prefixItems" in s:
                continue  # becomes additionalItems, dropped
            out[k] = strip_dropped(v)
        return out
    if isinstance(s, list):
        return [strip_dropped(v) for v in s]
    return s


class Inst:
    def __init__(self, job):
        from apischema.json_schema import JsonSchemaVersion, definitions_schema, deserialization_schema

        self.job = job
        self.prog = program_of(job)
        self.dialect = job["version"]
        V = getattr(JsonSchemaVersion, VERSIONS[self.dialect])
        # every other version is used first in this process: the conversion of V must not
        # depend on what was generated before (shared / memoised conversion state)
        for other in ["DRAFT_2020_12"] + [n for n in VERSIONS.values() if n != VERSIONS[self.dialect]]:
            deserialization_schema(self.prog.tp, version=getattr(JsonSchemaVersion, other))
        self.base = dict(deserialization_schema(self.prog.tp, version=JsonSchemaVersion.DRAFT_2020_12))
        self.conv = dict(deserialization_schema(self.prog.tp, version=V))
        self.defs = None
        self.base_defs = None
        if self.dialect in (OAS30, OAS31):
            self.defs = dict(definitions_schema(deserialization=[self.prog.tp], version=V))
            # reference side with the same extraction policy (all_refs) in 2020-12 vocabulary
            self.base = dict(deserialization_schema(self.prog.tp, version=JsonSchemaVersion.DRAFT_2020_12, all_refs=True))
        # the same types given for both directions: merged definitions (compare_schemas)
        self.both = None
        try:
            self.both = dict(definitions_schema(deserialization=[self.prog.tp], serialization=[self.prog.tp], version=V))
        except Exception:
            self.both = None  # asymmetric schemas are refused: nothing to check
        self.ref = strip_dropped(self.base) if self.dialect == OAS30 else self.base
        self.opts = ref_opts(job)
        self.bounds = bounds_of(job)
        self.functions = [
            "apischema.json_schema.versions.to_json_schema_2019_09",
            "apischema.json_schema.versions.to_json_schema_7",
            "apischema.json_schema.versions.to_open_api_3_0",
            "apischema.json_schema.versions.JsonSchemaVersion.conversion (LazyConversion)",
            "apischema.json_schema.schema._schema (concrete, per program and version)",
        ]
        from vf.harness.deser_e2e import accepts_all

        self.expect_tags = ["agree"]
        self.assumptions = ["OpenAPI 3.0: instances distinguished only by a dropped keyword are assumed away (reference = 2020-12 schema without them)"]
        self.relax = ()
        self.want_samples = 4
        self.static = self.static_check()

    def static_check(self) -> Optional[str]:
        d = self.dialect
        roots = [("schema", self.conv)] + [(f"definition {k}", v) for k, v in (self.defs or {}).items()]
        roots += [(f"merged definition {k}", v) for k, v in (self.both or {}).items()]
        for where, root in roots:
            for path, sub in walk_schema(root):
                bad = FOREIGN[d] & set(sub)
                if bad:
                    return f"{where} at {'/'.join(map(str, path)) or '<root>'}: keyword(s) {sorted(bad)} not in the {d} vocabulary"
                if "$ref" in sub and not str(sub["$ref"]).startswith(PREFIX[d]):
                    return f"{where}: $ref {sub['$ref']} does not use the {d} reference prefix"
                if d == OAS30:
                    t = sub.get("type")
                    if isinstance(t, list) or t == "null":
                        return f"{where} at {'/'.join(map(str, path))}: type {t} is not OpenAPI 3.0"
        uri = self.conv.get("$schema")
        if d in SCHEMA_URI and uri is not None and SCHEMA_URI[d] not in uri:
            return f"$schema {uri} does not name the {d} dialect"
        return None

    def js_triples(self, witnesses):
        out = []
        for w in witnesses:
            if not plain_json(w) or self.dialect in (OAS30,) or self.defs is not None:
                continue
            try:
                v = Evaluator(self.conv, self.dialect).valid(w)
            except Exception:
                continue
            out.append({"schema": self.conv, "dialect": self.dialect, "instance": w, "verdict": v})
        return out

    def body(self, ctx: Ctx) -> Optional[Failure]:
        if self.static and ctx.choice(2, "static-or-data") == 0:
            # concrete side condition, reported on its own path; the data paths go on
            return Failure("foreign-vocabulary", self.static, witness=None, extra={"schema": self.conv})
        d = Gen(ctx, self.prog, self.bounds, self.opts).json(self.prog.spec)
        ctx.witness = d
        ctx.run_phase()
        try:
            base_defs = None
            if self.dialect in (OAS30, OAS31):
                # 2020-12 side generated with all_refs: its $defs are inline
                pass
            a = Evaluator(self.ref, D2020).valid(d)
            b = Evaluator(self.conv, self.dialect, self.defs).valid(d)
        except OutsideDomain:
            raise Assume("outside the common semantic domain")
        except DanglingRef as e:
            return Failure("ill-founded-ref" if type(e).__name__ == "IllFounded" else "dangling-ref", str(e), witness=d, extra={"schema": self.conv})
        ctx.notes["tag:both-valid" if a and b else "tag:both-invalid" if not a and not b else "tag:differ"] = True
        ctx.notes["tag:agree"] = a == b
        if a != b:
            return Failure(
                "accepted-set-differs", witness=d,
                extra={"valid_2020_12": a, f"valid_{self.dialect}": b, "schema_2020_12": self.ref, "schema_converted": self.conv},
            )
        return None


def make(job):
    return Inst(job)
