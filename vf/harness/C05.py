"""C05: round trip (DESIGN.md 4/C05).

variants:
  value - deserialize(T, serialize(T, v)) == v with the same runtime classes
  datum - for accepted d: serialize(T, deserialize(T, d)) is d completed with defaults and
          re-deserializes to an equal value
  std   - standard-library converted types; values from concrete pools (C parsers reject
          proxies: outside the symbolic claim, labelled `realised`)
"""
from __future__ import annotations

import json
from typing import Optional

from vf import pools
from vf.engine import Assume, Ctx, Failure
from vf.harness.C04 import ser_kwargs, ser_opts
from vf.harness.common import api_kwargs, bounds_of, get_aliaser, method_classes, program_of, ref_opts, self_of
from vf.harness.deser_e2e import has_obj, n_positions
from vf.oracle.deser import RefDeser
from vf.oracle.ser import RefSer
from vf.specs import Sp, walk
from vf.sym import Gen, Val, same


def json_classes(root, s: Sp) -> set:
    from vf.oracle.deser import accepted_kinds

    return accepted_kinds(root, s)


def bijective(spec: Sp) -> bool:
    for s in walk(spec):
        if s.k == "obj":
            if s.opt("smethods") or s.opt("fields_set"):
                return False
            for f in s.a:
                if f.skip or not f.init or f.initvar or f.fall_back or f.required_md:
                    return False
        if s.k == "union":
            seen = set()
            for a in s.a:
                ks = json_classes(spec, a)
                if "float" in ks:
                    ks = ks | {"int"}
                if ks & seen:
                    return False
                seen |= ks
        if s.k == "opt" and "null" in json_classes(spec, s.a[0]):
            return False
        if s.k == "any":
            return False
        if s.k == "enum" and any(not isinstance(v, (int, str, float, bool)) for v in s.a):
            return False  # serialization-only enum
    return True


OPTS = [{}, {"aliaser": "prefix"}, {"aliaser": "camel"}, {"additional_properties": True}]


def jobs(prop, tier, seed):
    out = []
    for pid in pools.ids("ser", tier):
        spec, _ = pools.get("ser", pid)
        if not bijective(spec):
            continue
        optsets = (OPTS if tier == "thorough" else OPTS[:2]) if has_obj(spec) else [{}]
        if tier == "quick" and any(s.k == "obj" and s.opt("kind") == "typeddict" for s in walk(spec)):
            optsets = optsets + [OPTS[3]]
        for variant in ("value", "datum"):
            for o in optsets:
                if tier == "quick":
                    b = dict(depth=2, width=2, strlen=2, budget=0)
                    budget_s = 25
                else:
                    b = dict(depth=3, width=3, strlen=3, budget=0)
                    budget_s = 120
                if variant == "datum" and any(
                    x.k == "ann" and x.a[0].k in ("set", "fset") and {"min_items", "max_items"} & set(dict(x.opt("c") or ()))
                    for x in walk(spec)
                ):
                    # an item-count constraint on a set: an array with duplicates is accepted on its
                    # raw count and collapses (outside the bijective fragment: no datum is the image of
                    # a value); duplicates at set positions are assumed away
                    b = dict(b, distinct_sets=True)
                out.append(dict(harness="C05", variant=variant, pool="ser", pid=pid, opts=o, bounds=b, budget_s=budget_s))
    # discriminated unions (value direction: the references of the datum direction do not model them)
    for pid in pools.ids("union", tier):
        spec, _ = pools.get("union", pid)
        if not any(s.k == "disc" for s in walk(spec)) or not bijective(spec):
            continue
        for o in OPTS[:2]:
            b = dict(depth=2, width=2, strlen=2, budget=0) if tier == "quick" else dict(depth=3, width=3, strlen=3, budget=0)
            out.append(dict(harness="C05", variant="value", pool="union", pid=pid, opts=o, bounds=b, budget_s=25 if tier == "quick" else 120))
    for name in sorted(STD):
        out.append(dict(harness="C05", variant="std", pid=f"std:{name}", std=name, opts={}, bounds={}, budget_s=30))
    return out


def through_json(x):
    """what json.dumps / json.loads does to data that is already JSON-like, structurally (no
    C boundary): an Enum member that is also a str / int comes back as the plain value"""
    import enum

    if type(x) is list:
        return [through_json(v) for v in x]
    if type(x) is dict:
        return {k: through_json(v) for k, v in x.items()}
    if isinstance(x, enum.Enum) and isinstance(x, (str, int)):
        return x.value
    return x


class Inst:
    def __init__(self, job):
        from apischema import ValidationError, deserialization_method, serialization_method

        self.job = job
        self.variant = job["variant"]
        self.prog = program_of(job)
        o = job.get("opts", {})
        self.dkw = api_kwargs(job)
        self.skw = ser_kwargs(o)
        self.de = deserialization_method(self.prog.tp, **self.dkw)
        self.se = serialization_method(self.prog.tp, **self.skw)
        self.dopts = ref_opts(job)
        self.sopts = ser_opts(o)
        self.bounds = bounds_of(job)
        self.VE = ValidationError
        self.functions = method_classes(self_of(self.de)) + method_classes(self_of(self.se))
        self.expect_tags = ["round-trip"]
        self.assumptions = ["bijective fragment: no serialized method, asymmetric skip, init=False / InitVar, overlapping union alternatives, Any"]
        self.relax = ()

    def body(self, ctx: Ctx) -> Optional[Failure]:
        if self.variant == "value":
            v = Val(ctx, self.prog, self.bounds, respect_constraints=True).val(self.prog.spec)
            ctx.witness = v
            ctx.run_phase()
            d = through_json(self.se(v))
            if ctx.concrete is not None:
                try:
                    d = json.loads(json.dumps(d))  # replay only: json is a C boundary
                except (TypeError, ValueError):
                    pass
            try:
                v2 = self.de(d)
            except self.VE as e:
                if self.relax and RefDeser(self.prog, self.dopts, self.relax).run(d)[0]:
                    return None  # rejected exactly as the known finding's semantics says
                return Failure("serialized-value-rejected", witness=v, extra={"data": d, "errors": e.errors})
            ctx.notes["tag:round-trip"] = True
            if not same(v2, v):
                return Failure("value-not-restored", witness=v, extra={"data": d, "back": v2})
            return None
        # datum direction
        g = Gen(ctx, self.prog, self.bounds, self.dopts)
        d = g.json(self.prog.spec)
        ctx.witness = d
        ctx.run_phase()
        try:
            v = self.de(d)
        except self.VE:
            raise Assume("datum not accepted")
        out = self.se(v)
        errs, ref_v = RefDeser(self.prog, self.dopts, self.relax).run(d)
        if errs:
            return None  # verdict disagreements are C01's subject
        expected = RefSer(self.prog, self.sopts).run(ref_v)
        ctx.notes["tag:round-trip"] = True
        if not same(out, expected):
            return Failure("not-completed-datum", witness=d, extra={"out": out, "expected": expected})
        try:
            v3 = self.de(out)
        except self.VE as e:
            return Failure("reserialized-rejected", witness=d, extra={"out": out, "errors": e.errors})
        if not same(v3, v):
            return Failure("re-deserialized-differs", witness=d, extra={"first": v, "second": v3})
        return None


# ------------------------------------------------------------------ std types (realised)
STD = {
    "UUID": ("from uuid import UUID", "UUID", ["UUID('12345678-1234-5678-1234-567812345678')", "UUID(int=0)"]),
    "date": ("from datetime import date", "date", ["date(2020, 1, 2)", "date(1, 1, 1)", "date(9999, 12, 31)"]),
    "datetime": ("from datetime import datetime, timezone, timedelta", "datetime", [
        "datetime(2020, 1, 2, 3, 4, 5)", "datetime(2020, 1, 2, 3, 4, 5, 678)", "datetime(2020, 1, 2, tzinfo=timezone.utc)",
        "datetime(2020, 1, 2, 3, tzinfo=timezone(timedelta(hours=-5, minutes=-30)))"]),
    "time": ("from datetime import time", "time", ["time(1, 2, 3)", "time(0, 0)", "time(23, 59, 59, 999999)"]),
    "Decimal": ("from decimal import Decimal", "Decimal", ["Decimal('1.5')", "Decimal('0')", "Decimal('-12345678901234567890.123456789')", "Decimal('1E+3')"]),
    "bytes": ("", "bytes", ["b''", "b'ab'", "bytes(range(256))"]),
    "Path": ("from pathlib import Path", "Path", ["Path('a/b')", "Path('/')", "Path('.')"]),
    "IPv4Address": ("from ipaddress import IPv4Address", "IPv4Address", ["IPv4Address('1.2.3.4')", "IPv4Address(0)"]),
    "IPv6Address": ("from ipaddress import IPv6Address", "IPv6Address", ["IPv6Address('::1')", "IPv6Address('2001:db8::ff00:42:8329')"]),
    "IPv4Network": ("from ipaddress import IPv4Network", "IPv4Network", ["IPv4Network('10.0.0.0/8')"]),
    "Pattern": ("import re\nfrom typing import Pattern", "Pattern", ["re.compile('a+b')", "re.compile('')"]),
    "deque": ("from collections import deque\nfrom typing import Deque", "Deque[int]", ["deque([1, 2])", "deque()"]),
}


class StdInst:
    def __init__(self, job):
        from apischema import deserialization_method, serialization_method

        self.job = job
        imp, texpr, exprs = STD[job["std"]]
        import sys
        import types

        mod = types.ModuleType(f"vfstd_{job['std']}")
        sys.modules[mod.__name__] = mod
        ns = mod.__dict__
        exec("from typing import *\nfrom dataclasses import dataclass, field\n" + imp, ns)
        exec(f"@dataclass\nclass W:\n    x: {texpr}\n    xs: List[{texpr}] = field(default_factory=list)\n    m: Dict[str, Optional[{texpr}]] = field(default_factory=dict)\n", ns)
        self.W = ns["W"]
        self.values = [eval(e, ns) for e in exprs]
        self.tp = eval(texpr, ns)
        self.de = deserialization_method(self.W)
        self.se = serialization_method(self.W)
        self.de1 = deserialization_method(self.tp)
        self.se1 = serialization_method(self.tp)
        self.functions = ["apischema.std_types (converters, concrete values)"] + method_classes(self_of(self.de))
        self.expect_tags = ["round-trip"]
        self.assumptions = ["realised: values come from a concrete pool selected by forks; not a symbolic claim"]
        self.relax = ()

    def body(self, ctx: Ctx):
        vals = self.values
        x = ctx.pick(vals, "x")
        n = ctx.choice(3, "n")
        xs = [ctx.pick(vals, "e") for _ in range(n)]
        m = {}
        if ctx.flag("k0"):
            m["k0"] = ctx.pick(vals + [None], "mv")
        w = self.W(x, xs, m)
        ctx.witness = repr(w)
        ctx.run_phase()
        d = self.se(w)
        d2 = json.loads(json.dumps(d))
        w2 = self.de(d2)
        ctx.notes["tag:round-trip"] = True
        if w2 != w or type(w2.x) is not type(w.x):
            return Failure("value-not-restored", witness=repr(w), extra={"data": d, "back": repr(w2)})
        d1 = self.se1(x)
        if self.se1(self.de1(json.loads(json.dumps(d1)))) != d1:
            return Failure("datum-not-restored", witness=repr(x), extra={"data": d1})
        return None


def make(job):
    return StdInst(job) if job["variant"] == "std" else Inst(job)
