"""Documented coercion table (docs/de_serialization.md, section Coercion)."""
BOOL_WORDS = {
    "0": False, "1": True,
    "f": False, "t": True,
    "n": False, "y": True,
    "no": False, "yes": True,
    "false": False, "true": True,
    "off": False, "on": True,
    "ko": False, "ok": True,
}
