"""C12: conversions compose - a converted type behaves as its source / target
(DESIGN.md 4/C12).  Commuting squares whose reference side is the *real* method of the
source / target type:

   deserialize(T, d)  ==  f(deserialize(S, d))       rejects iff S rejects (or f raises
                                                      ValueError under catch_value_error)
   serialize(T, v)    ==  serialize(U, g(v))

for every scenario x placement (registered / dynamic / field / default_conversion) x wrapper
(plain, List, Optional, Dict, tuple element, union member, dataclass field)."""
from __future__ import annotations

from typing import Optional

from vf.engine import Assume, Ctx, Failure
from vf.harness.common import bounds_of, method_classes, self_of
from vf.specs import FLOAT, INT, STR, F, Program, Sp, build, lit, lst, mp, obj, opt, tup, union
from vf.sym import Gen, Val, same

COMMON = '''
from apischema.conversions import Conversion, LazyConversion, as_names, as_str, catch_value_error
from apischema.objects import object_deserialization, object_serialization
from apischema import deserializer, serializer
from collections import deque


class Box:
    """opaque class"""
    def __init__(self, v):
        self.v = v
    def __eq__(self, o):
        return type(o) is type(self) and (o.v == self.v or (o.v != o.v and self.v != self.v))
    def __repr__(self):
        return f"{type(self).__name__}({self.v!r})"
    __hash__ = None
'''

# each scenario: src, T (type expr), S_spec, S (type expr), f (expr), U_spec / U / g for serialization,
# how the conversion is placed: "registered" | ("dynamic", expr for deserialization, expr for serialization)
SCENARIOS = {
    "registered": dict(
        src="class A(Box): pass\n@deserializer\ndef a_from(i: int) -> A:\n    return A(i)\n@serializer\ndef a_to(a: A) -> int:\n    return a.v\n",
        T="A", S_spec=INT, S="int", f="a_from", U_spec=INT, U="int", g="a_to",
    ),
    "chain": dict(
        src="class B0(Box): pass\nclass B1(Box): pass\n"
        "@deserializer\ndef b0_from(s: str) -> B0:\n    return B0(s)\n@deserializer\ndef b1_from(b: B0) -> B1:\n    return B1(b)\n"
        "@serializer\ndef b1_to(b: B1) -> B0:\n    return b.v\n@serializer\ndef b0_to(b: B0) -> str:\n    return b.v\n",
        T="B1", S_spec=STR, S="str", f="(lambda s: b1_from(b0_from(s)))", U_spec=STR, U="str", g="(lambda b: b0_to(b1_to(b)))",
    ),
    "multiple": dict(
        src="class M(Box): pass\n@deserializer\ndef m_from_int(i: int) -> M:\n    return M(('i', i))\n"
        "@deserializer\ndef m_from_list(l: List[int]) -> M:\n    return M(('l', tuple(l)))\n"
        "@serializer\ndef m_to(m: M) -> Union[int, List[int]]:\n    return m.v[1] if m.v[0] == 'i' else list(m.v[1])\n",
        T="M", S_spec=union(INT, lst(INT)), S="Union[int, List[int]]",
        f="(lambda x: m_from_int(x) if isinstance(x, int) else m_from_list(x))",
        U_spec=union(INT, lst(INT)), U="Union[int, List[int]]", g="m_to",
    ),
    "value_error": dict(
        src="class P(Box): pass\ndef p_from(i: int) -> P:\n    if i < 0:\n        raise ValueError('negative')\n    return P(i)\n"
        "deserializer(Conversion(catch_value_error(p_from), source=int, target=P))\n@serializer\ndef p_to(p: P) -> int:\n    return p.v\n",
        T="P", S_spec=INT, S="int", f="p_from", value_error=True, U_spec=INT, U="int", g="p_to",
    ),
    "dynamic": dict(
        src="class D(Box): pass\ndef d_from(f: float) -> D:\n    return D(f)\ndef d_to(d: D) -> float:\n    return d.v\n",
        T="D", S_spec=FLOAT, S="float", f="d_from", U_spec=FLOAT, U="float", g="d_to", dynamic=("d_from", "d_to"),
    ),
    "field": dict(
        src="class Fc(Box): pass\ndef fc_from(s: str) -> Fc:\n    return Fc(s)\ndef fc_to(x: Fc) -> str:\n    return x.v\n",
        T="Fc", S_spec=STR, S="str", f="fc_from", U_spec=STR, U="str", g="fc_to", field_conv=("fc_from", "fc_to"),
    ),
    "inherited": dict(
        src="class Base(Box): pass\nclass Sub(Base): pass\n@serializer\ndef base_to(b: Base) -> int:\n    return b.v\n"
        "@deserializer\ndef sub_from(i: int) -> Sub:\n    return Sub(i)\n",
        T="Sub", S_spec=INT, S="int", f="sub_from", U_spec=INT, U="int", g="base_to",
    ),
    "generic": dict(
        src="T_ = TypeVar('T_')\nclass W(Generic[T_]):\n    def __init__(self, items):\n        self.items = list(items)\n"
        "    def __eq__(self, o):\n        return type(o) is W and o.items == self.items\n    __hash__ = None\n"
        "@deserializer\ndef w_from(items: List[T_]) -> W[T_]:\n    return W(items)\n"
        "@serializer\ndef w_to(w: W[T_]) -> List[T_]:\n    return w.items\n",
        T="W[int]", S_spec=lst(INT), S="List[int]", f="w_from", U_spec=lst(INT), U="List[int]", g="w_to",
    ),
    "inherit_stop": dict(
        src="class H0(Box): pass\nclass H1(H0): pass\nclass H2(H1): pass\n"
        "@serializer\ndef h0_to(h: H0) -> int:\n    return h.v\n"
        "serializer(Conversion(lambda h: str(h.v), source=H1, target=str, inherited=False))\n"
        "@deserializer\ndef h2_from(i: int) -> H2:\n    return H2(i)\n",
        T="H2", S_spec=INT, S="int", f="h2_from", U_spec=INT, U="int", g="h0_to",
    ),
    "identity_tuple": dict(
        src="@dataclass\nclass Pt:\n    x: int\n    y: int = 0\n"
        "def pt_from(i: int) -> Pt:\n    return Pt(i, i)\ndef pt_to(p: Pt) -> int:\n    return p.x\n"
        "@dataclass\nclass PtPlain:\n    x: int\n    y: int = 0\n",
        T="Pt", S_spec=union(obj("PtPlain", F("x", INT), F("y", INT, default=("v", "0"))), INT), S="Union[PtPlain, int]",
        f="(lambda v: Pt(v, v) if isinstance(v, int) else Pt(v.x, v.y))",
        U_spec=INT, U="int", g="pt_to", dynamic=("(identity, pt_from)", "pt_to"), only=("plain",), deser_only=True,
    ),
    "builtin": dict(
        src="class Tok(Box):\n    def __str__(self):\n        return self.v\n"
        "deserializer(Conversion(Tok, source=str, target=Tok))\nserializer(Conversion(str, source=Tok, target=str))\n",
        T="Tok", S_spec=STR, S="str", f="Tok", U_spec=STR, U="str", g="str",
    ),
    "generic_inherited": dict(
        src="T_ = TypeVar('T_')\nclass Bag(Generic[T_]):\n    def __init__(self, items):\n        self.items = list(items)\n"
        "    def __eq__(self, o):\n        return type(o) is type(self) and o.items == self.items\n    __hash__ = None\n"
        "@serializer\ndef bag_to(b: Bag[T_]) -> List[T_]:\n    return b.items\n"
        "class IntBag(Bag[int]):\n    pass\n"
        "@deserializer\ndef intbag_from(items: List[int]) -> IntBag:\n    return IntBag(items)\n",
        T="IntBag", S_spec=lst(INT), S="List[int]", f="intbag_from", U_spec=lst(INT), U="List[int]", g="bag_to",
    ),
    "identity": dict(
        src="@dataclass\nclass Idt:\n    x: int\n@deserializer\ndef idt_from(i: int) -> Idt:\n    return Idt(i)\n@serializer\ndef idt_to(i: Idt) -> int:\n    return i.x\n"
        "@dataclass\nclass IdtPlain:\n    x: int\n",
        T="Idt", S_spec=obj("IdtPlain", F("x", INT)), S="IdtPlain", f="(lambda p: Idt(p.x))",
        U_spec=obj("IdtPlain", F("x", INT)), U="IdtPlain", g="(lambda i: IdtPlain(i.x))", dynamic=("identity", "identity"), named_S=True,
    ),
    # ---- conversion helpers of the public API (round 4): each is "a conversion" for the statement
    "as_str": dict(
        src="@as_str\nclass Ver(Box):\n    def __init__(self, s):\n        if s[:1] == 'x':\n            raise ValueError('bad version')\n"
        "        self.v = s\n    def __str__(self):\n        return self.v\n",
        T="Ver", S_spec=STR, S="str", f="Ver", value_error=True, U_spec=STR, U="str", g="str",
    ),
    "as_names": dict(
        src="class Col(Enum):\n    RED = 1\n    GREEN = 2\nas_names(Col)\n",
        T="Col", S_spec=lit("RED", "GREEN"), S="Literal['RED', 'GREEN']", f="(lambda n: Col[n])",
        U_spec=lit("RED", "GREEN"), U="Literal['RED', 'GREEN']", g="(lambda c: c.name)", plain_mixin=True,
    ),
    "object_deserialization": dict(
        src="class Pt2(Box): pass\ndef make_pt(x: int, y: int = 0) -> Pt2:\n    return Pt2((x, y))\n"
        "deserializer(object_deserialization(make_pt))\n",
        T="Pt2", S_spec=obj("PtIn", F("x", INT), F("y", INT, default=("v", "0"))), S="PtIn",
        f="(lambda p: make_pt(p.x, p.y))", U_spec=INT, U="int", g="None", deser_only=True,
    ),
    "object_serialization": dict(
        src="@dataclass\nclass Dat:\n    id: int\n    content: str\n    @property\n    def neg(self) -> int:\n        return -self.id\n"
        "    def twice(self) -> int:\n        return self.id + self.id\n"
        "dat_view = object_serialization(Dat, ['id', Dat.neg, (Dat.twice, alias('dbl'))], type_name('DatView'))\n",
        T="Dat", S_spec=INT, S="int", f="(lambda u: Dat(u.id, 'c'))",
        U_spec=obj("DatOut", F("id", INT), F("neg", INT), F("dbl", INT)), U="DatOut",
        g="(lambda d: DatOut(d.id, -d.id, d.id + d.id))", dynamic=("None", "dat_view"), ser_only=True,
    ),
    "sub_conversion": dict(
        src="T_ = TypeVar('T_')\nclass Q(Generic[T_]):\n    def __init__(self, items):\n        self.items = list(items)\n"
        "    def __eq__(self, o):\n        return type(o) is Q and o.items == self.items\n    __hash__ = None\n"
        "def q_from(items: List[T_]) -> Q[T_]:\n    return Q(items)\ndef q_to(q: Q[T_]) -> List[T_]:\n    return q.items\n"
        "class Foo(Box): pass\ndef foo_from(i: int) -> Foo:\n    return Foo(i)\ndef foo_to(x: Foo) -> int:\n    return x.v\n",
        T="Q[Foo]", S_spec=lst(INT), S="List[int]", f="(lambda xs: Q([Foo(x) for x in xs]))",
        U_spec=lst(INT), U="List[int]", g="(lambda q: [x.v for x in q.items])",
        dynamic=("Conversion(q_from, sub_conversion=foo_from)", "Conversion(q_to, sub_conversion=foo_to)"),
    ),
    "lazy_registered": dict(
        src="class Lz(Box): pass\ndef lz_from(i: int) -> Lz:\n    return Lz(i)\ndef lz_to(x: Lz) -> int:\n    return x.v\n"
        "deserializer(lazy=lambda: Conversion(lz_from), target=Lz)\nserializer(lazy=lambda: Conversion(lz_to), source=Lz)\n",
        T="Lz", S_spec=INT, S="int", f="lz_from", U_spec=INT, U="int", g="lz_to",
    ),
    "generic_nested": dict(
        src="T_ = TypeVar('T_')\nclass W2(Generic[T_]):\n    def __init__(self, d):\n        self.d = dict(d)\n"
        "    def __eq__(self, o):\n        return type(o) is W2 and o.d == self.d\n    __hash__ = None\n"
        "@deserializer\ndef w2_from(d: Dict[str, List[T_]]) -> W2[T_]:\n    return W2(d)\n"
        "@serializer\ndef w2_to(w: W2[T_]) -> Dict[str, List[T_]]:\n    return w.d\n",
        T="W2[int]", S_spec=mp(lst(INT)), S="Dict[str, List[int]]", f="w2_from",
        U_spec=mp(lst(INT)), U="Dict[str, List[int]]", g="w2_to", only=("plain", "list", "opt"),
    ),
    "lazy_inherited": dict(
        src="class LA(Box): pass\nclass LB(LA): pass\ndef la_to(x: LA) -> int:\n    return x.v\n"
        "serializer(lazy=lambda: la_to, source=LA)\n@deserializer\ndef lb_from(i: int) -> LB:\n    return LB(i)\n",
        T="LB", S_spec=INT, S="int", f="lb_from", U_spec=INT, U="int", g="la_to",
    ),
}
WRAPPERS = ["plain", "list", "opt", "dict", "tuple", "union", "field", "deque"]


def wrap_type(w: str, t: str) -> str:
    return {"deque": f"Deque[{t}]", "plain": t, "list": f"List[{t}]", "opt": f"Optional[{t}]", "dict": f"Dict[str, {t}]",
            "tuple": f"Tuple[{t}, str]", "union": f"Union[{t}, None, List[{t}]]"}[w]


def wrap_spec(w: str, s: Sp) -> Sp:
    return {"deque": lst(s), "plain": s, "list": lst(s), "opt": opt(s), "dict": mp(s), "tuple": tup(s, STR),
            "union": union(s, Sp("none"), lst(s))}[w]


def lift(w: str, f):
    if w == "plain":
        return f
    if w == "list":
        return lambda xs: [f(x) for x in xs]
    if w == "deque":
        import collections

        return lambda xs: collections.deque(f(x) for x in xs)
    if w == "opt":
        return lambda x: None if x is None else f(x)
    if w == "dict":
        return lambda m: {k: f(v) for k, v in m.items()}
    if w == "tuple":
        return lambda t: (f(t[0]), t[1])
    if w == "union":
        return lambda x: None if x is None else [f(y) for y in x] if isinstance(x, list) else f(x)
    raise ValueError(w)


def plain_mixin(x):
    import enum

    if isinstance(x, enum.Enum) and isinstance(x, str):
        return x.value
    if isinstance(x, list):
        return [plain_mixin(y) for y in x]
    if isinstance(x, tuple):
        return tuple(plain_mixin(y) for y in x)
    if isinstance(x, dict):
        return {k: plain_mixin(v) for k, v in x.items()}
    return x


def jobs(prop, tier, seed):
    out = []
    q = tier == "quick"
    for name, sc in SCENARIOS.items():
        for w in WRAPPERS:
            if w == "field" and sc.get("dynamic"):
                continue  # locality: checked by the `locality` variant
            if sc.get("field_conv") and w != "field":
                continue
            if sc.get("named_S") and w != "plain":
                continue  # `identity` matches the outermost type only
            if sc.get("only") and w not in sc["only"]:
                continue
            if w == "union" and name in ("multiple", "generic", "generic_inherited", "dynamic", "sub_conversion"):
                continue  # the source is itself a list / union (ambiguous wrapper), or a float (by-type dispatch known finding)
            for direction in ("deser",) if sc.get("deser_only") else ("ser",) if sc.get("ser_only") else ("deser", "ser"):
                b = dict(depth=2, width=2, strlen=2, budget=1 if q else 2)
                out.append(dict(harness="C12", variant=direction, pid=f"{name}/{w}", scenario=name, wrapper=w, opts={}, bounds=b, budget_s=30 if q else 120))
        out.append(dict(harness="C12", variant="schema", pid=f"{name}/schema", scenario=name, wrapper="plain", opts={}, bounds={}, budget_s=20))
    out.append(dict(harness="C12", variant="recursive", pid="recursive/field", scenario="registered", wrapper="plain", opts={}, bounds={}, budget_s=40))
    out.append(dict(harness="C12", variant="subpair", pid="sub_conversion/pair", scenario="sub_conversion", wrapper="plain", opts={}, bounds=dict(depth=2, width=2, strlen=2, budget=1), budget_s=30))
    out.append(dict(harness="C12", variant="locality", pid="dynamic/locality", scenario="dynamic", wrapper="field", opts={}, bounds={}, budget_s=20))
    return out


class Inst:
    def __init__(self, job):
        from apischema import ValidationError, deserialization_method, serialization_method

        self.job = job
        sc = SCENARIOS[job["scenario"]]
        self.sc = sc
        w = job["wrapper"]
        self.w = w
        root_spec = sc["U_spec"] if job["variant"] == "ser" or sc.get("ser_only") else sc["S_spec"]
        extra = COMMON + sc["src"]
        holder = ""
        if w == "field":
            conv = sc.get("field_conv")
            md = f", metadata=conversion(deserialization={conv[0]}, serialization={conv[1]})" if conv else ""
            holder = (
                f"@dataclass\nclass HolderT:\n    x: {sc['T']} = field({md[2:] if md else ''})\n    y: int = 0\n"
                if md
                else f"@dataclass\nclass HolderT:\n    x: {sc['T']}\n    y: int = 0\n"
            )
            holder += f"@dataclass\nclass HolderS:\n    x: {sc['S']}\n    y: int = 0\n@dataclass\nclass HolderU:\n    x: {sc['U']}\n    y: int = 0\n"
        spec = root_spec if w == "field" else wrap_spec(w, root_spec)
        self.prog = build(job["pid"], spec, extra)
        ns = self.prog.module.__dict__
        exec(holder, ns)
        self.ns = ns
        self.f = eval(sc["f"], ns)
        self.g = eval(sc["g"], ns)
        dyn = sc.get("dynamic")
        dkw = {"conversion": eval(dyn[0], ns)} if dyn and dyn[0] != "None" else {}
        skw = {"conversion": eval(dyn[1], ns)} if dyn and dyn[1] != "None" else {}
        if w == "field":
            T, S, U = ns["HolderT"], ns["HolderS"], ns["HolderU"]
        else:
            T, S, U = (eval(wrap_type(w, sc[k]), ns) for k in ("T", "S", "U"))
        self.T, self.S, self.U = T, S, U
        self.VE = ValidationError
        self.bounds = bounds_of(job)
        self.variant = job["variant"]
        self.functions = []
        if self.variant == "deser":
            self.mT = deserialization_method(T, **dkw)
            self.mS = deserialization_method(S)
            self.functions = sorted(set(method_classes(self_of(self.mT)) + method_classes(self_of(self.mS))))
        elif self.variant == "ser":
            self.mT = serialization_method(T, **skw)
            self.mU = serialization_method(U)
            from apischema.json_schema import serialization_schema

            try:  # C07's quantifier: dynamic / field / registered conversions
                self.ser_schema = dict(serialization_schema(T, **skw))
            except Exception as e:
                self.ser_schema = ("raise", type(e).__name__)
            self.functions = sorted(set(method_classes(self_of(self.mT)) + method_classes(self_of(self.mU))))
        self.functions += ["apischema.conversions.visitor.ConversionsVisitor.visit (concrete, at compile time)"]
        self.expect_tags = ["compared"]
        self.assumptions = ["converters are the generated ones (total except the declared ValueError)"]
        self.relax = ()

    # ---- deserialization square
    def body(self, ctx: Ctx) -> Optional[Failure]:
        if self.variant == "schema":
            return self.schema(ctx)
        if self.variant == "locality":
            return self.locality(ctx)
        if self.variant == "ser":
            return self.ser(ctx)
        d = Gen(ctx, self.prog, self.bounds).json(self.prog.spec)
        if self.w == "field":
            d = {"x": d}
            if ctx.flag("y"):
                d["y"] = ctx.int("y")
        ctx.witness = d
        ctx.run_phase()
        try:
            t = ("ok", self.mT(d))
        except self.VE as e:
            t = ("err", e.errors)
        try:
            s = ("ok", self.mS(d))
        except self.VE as e:
            s = ("err", e.errors)
        ctx.notes["tag:compared"] = True
        if s[0] == "err":
            if t[0] == "ok":
                return Failure("converted-type-accepts-what-source-rejects", witness=d, extra={"T": t, "S": s})
            if self.job["scenario"] == "multiple":
                return None
            missing = [e for e in s[1] if e not in t[1]]
            extra = [e for e in t[1] if e not in s[1]]
            if missing or (extra and not self.sc.get("value_error")):
                return Failure("errors-differ-from-source", witness=d, extra={"T": t[1], "S": s[1]})
            return None
        lifted = lift(self.w, self.f) if self.w != "field" else None
        try:
            if self.w == "field":
                exp = self.ns["HolderT"](self.f(s[1].x), s[1].y)
            else:
                exp = lifted(s[1])
        except ValueError:
            if not self.sc.get("value_error"):
                raise
            if t[0] == "ok":
                return Failure("ValueError-of-converter-not-reported", witness=d, extra={"T": t})
            return None
        if t[0] == "err":
            return Failure("converted-type-rejects-what-source-accepts", witness=d, extra={"T": t, "S": s})
        if not same(t[1], exp):
            return Failure("result-differs-from-f(source)", witness=d, extra={"T": t[1], "expected": exp})
        return None

    # ---- serialization square
    def ser(self, ctx: Ctx):
        u = Val(ctx, self.prog, self.bounds, respect_constraints=True).val(self.prog.spec)
        if self.w == "field":
            y = ctx.int("y")
            try:
                v = self.ns["HolderT"](self.f(u), y)
            except ValueError:
                raise Assume("not a value of T")
            gv = self.ns["HolderU"](u, y)
        else:
            try:
                v = lift(self.w, self.f)(u)
            except ValueError:
                raise Assume("not a value of T")
            gv = u
        ctx.witness = u
        ctx.run_phase()
        a = self.mT(v)
        if self.sc.get("plain_mixin"):
            a = plain_mixin(a)  # a str-mixin Enum member is already JSON data (documented): its value
        # g(v): apply the serializer function itself, elementwise, then the real method of U
        if self.w == "field":
            gu = self.ns["HolderU"](self.g(v.x), v.y)
        else:
            gu = lift(self.w, self.g)(v)
        b = self.mU(gu)
        ctx.notes["tag:compared"] = True
        if not same(a, b):
            return Failure("serialization-differs-from-serialize(U, g(v))", witness=u, extra={"T": a, "U": b})
        if isinstance(self.ser_schema, tuple):
            return Failure("serialization-schema-raises", witness=u, extra={"exc": self.ser_schema[1]})
        from vf.oracle.jsvalid import D2020, Evaluator, OutsideDomain

        try:
            if not Evaluator(self.ser_schema, D2020).valid(a):
                return Failure("converted-output-invalid-against-serialization-schema", witness=u, extra={"out": a, "schema": self.ser_schema})
        except OutsideDomain:
            pass
        return None

    def schema(self, ctx: Ctx):
        from crosshair.tracers import NoTracing

        ctx.notes["tag:compared"] = True
        ctx.run_phase()
        if ctx.concrete is not None:
            return self._schema()
        with NoTracing():
            return self._schema()

    def _schema(self):
        from apischema.json_schema import deserialization_schema, serialization_schema

        dyn = self.sc.get("dynamic")
        if self.sc.get("field_conv") or self.job["scenario"] in ("multiple", "identity", "identity_tuple"):
            return None  # field conversions have no type-level schema; several sources: anyOf vs type list
        dkw = {"conversion": eval(dyn[0], self.ns)} if dyn and dyn[0] != "None" else {}
        skw = {"conversion": eval(dyn[1], self.ns)} if dyn and dyn[1] != "None" else {}
        for w in ("plain", "list", "opt", "deque"):
            T, S, U = (eval(wrap_type(w, self.sc[k]), self.ns) for k in ("T", "S", "U"))
            if not self.sc.get("ser_only"):
                a, b = unname(deserialization_schema(T, **dkw)), unname(deserialization_schema(S))
                if a != b:
                    return Failure("deserialization-schema-differs-from-source", witness=None, extra={"wrapper": w, "T": a, "S": b})
            if self.sc.get("deser_only"):
                continue
            a, b = unname(serialization_schema(T, **skw)), unname(serialization_schema(U))
            if a != b:
                return Failure("serialization-schema-differs-from-target", witness=None, extra={"wrapper": w, "T": a, "U": b})
        return None

    def locality(self, ctx: Ctx):
        """a dynamic conversion reaches through containers and unions but not into the fields
        of nested objects: compiling HolderT with it must fail as without it"""
        from crosshair.tracers import NoTracing

        ctx.notes["tag:compared"] = True
        ctx.run_phase()

        def check():
            from apischema import Unsupported, deserialization_method, serialization_method

            dyn = self.sc["dynamic"]
            for make, conv in ((deserialization_method, dyn[0]), (serialization_method, dyn[1])):
                try:
                    make(self.ns["HolderT"], conversion=eval(conv, self.ns))
                except Unsupported:
                    continue
                return Failure("dynamic-conversion-applied-inside-nested-object-field", witness=None, extra={"api": make.__name__})
            return None

        if ctx.concrete is not None:
            return check()
        with NoTracing():
            return check()


REC_SRC = """
from dataclasses import dataclass, field
from typing import *
from apischema.conversions import Conversion, LazyConversion
from apischema.metadata import conversion


def rn_from(pair: tuple) -> "RN":
    return RN(pair[0], list(pair[1]))


def rn_to(n: "RN") -> tuple:
    return (n.v, n.kids)


@dataclass
class RN:
    v: int
    kids: List["RN"] = field(default_factory=list)
    nxt: Optional["RN"] = field(
        default=None,
        metadata=conversion(deserialization=LazyConversion(lambda: FROM), serialization=LazyConversion(lambda: TO)),
    )


Pair = Tuple[int, List[RN]]
FROM = Conversion(rn_from, source=Pair, target=RN)
TO = Conversion(rn_to, source=RN, target=Pair)
"""


class Recursive:
    """a recursive class whose self-referencing field has a field-level conversion that
    contains the class again: the conversion must apply at every level"""

    def __init__(self, job):
        import sys
        import types

        from apischema import ValidationError, deserialization_method, serialization_method

        self.job = job
        Recursive.count = getattr(Recursive, "count", 0) + 1
        mod = types.ModuleType(f"vf_c12_rec{Recursive.count}")
        sys.modules[mod.__name__] = mod
        exec(REC_SRC, mod.__dict__)
        self.RN = mod.RN
        self.de = deserialization_method(mod.RN)
        self.se = serialization_method(mod.RN)
        self.VE = ValidationError
        self.functions = sorted(set(method_classes(self_of(self.de)) + method_classes(self_of(self.se)))) + [
            "apischema.recursion.RecursiveConversionsVisitor.visit (concrete, at compile time)"
        ]
        self.expect_tags = ["compared"]
        self.assumptions = []
        self.relax = ()

    def data(self, ctx, depth):
        d = {"v": ctx.int("v")}
        if depth > 0 and ctx.flag("kids"):
            d["kids"] = [self.data(ctx, depth - 1)]
        if depth > 0 and ctx.flag("nxt"):
            kids = [self.data(ctx, depth - 1)] if ctx.flag("kid") else []
            d["nxt"] = [ctx.int("t"), kids]
        return d

    def expected(self, d):
        nxt = None
        if "nxt" in d:
            t, kids = d["nxt"]
            nxt = self.RN(t, [self.expected(k) for k in kids])
        return self.RN(d["v"], [self.expected(k) for k in d.get("kids", [])], nxt)

    def image(self, n):
        """serialize(T, v) == serialize(U, g(v)) on the converted field"""
        return {
            "v": n.v,
            "kids": [self.image(k) for k in n.kids],
            "nxt": None if n.nxt is None else [n.nxt.v, [self.image(k) for k in n.nxt.kids]],
        }

    def body(self, ctx: Ctx):
        d = self.data(ctx, 2)
        ctx.witness = d
        ctx.run_phase()
        ctx.notes["tag:compared"] = True
        try:
            v = self.de(d)
        except self.VE as e:
            return Failure("pair-form-of-converted-field-rejected", witness=d, extra={"errors": e.errors})
        exp = self.expected(d)
        if not same(v, exp):
            return Failure("recursive-field-conversion-not-applied", witness=d, extra={"result": v, "expected": exp})
        try:
            self.de({"v": d["v"], "nxt": {"v": 0}})
            return Failure("object-form-accepted-for-converted-field", witness=d)
        except self.VE:
            pass
        out = self.se(v)
        if not same(out, self.image(v)):
            return Failure("recursive-field-serialization-not-converted", witness=d, extra={"out": out, "expected": self.image(v)})
        return None


def unname(schema):
    """schemas are compared up to the names of the definitions (the generated input / output
    class of object_deserialization / object_serialization has its own type_name): every
    `$ref` is replaced by the definition it points to (non-recursive programs only)"""
    defs = schema.get("$defs", {})

    def go(x, depth=0):
        if isinstance(x, dict):
            if "$ref" in x and depth < 6:
                return go(defs[x["$ref"].rsplit("/", 1)[1]], depth + 1)
            return {k: go(v, depth) for k, v in x.items() if k != "$defs"}
        if isinstance(x, list):
            return [go(v, depth) for v in x]
        return x

    return go(dict(schema))


class SubPair:
    """two conversions in one process that differ by their sub_conversion only: each behaves
    as its own composition (the method caches are keyed by the conversion)"""

    SRC = SCENARIOS["sub_conversion"]["src"] + (
        "def foo_to_neg(x: Foo) -> int:\n    return -x.v\ndef foo_from_neg(i: int) -> Foo:\n    return Foo(-i)\n"
    )

    def __init__(self, job):
        from apischema import ValidationError, deserialization_method, serialization_method

        self.job = job
        self.prog = build(job["pid"], lst(INT), COMMON + self.SRC)
        ns = self.prog.module.__dict__
        self.ns = ns
        C, T = ns["Conversion"], eval("Q[Foo]", ns)
        self.ser = [serialization_method(T, conversion=C(ns["q_to"], sub_conversion=ns[g])) for g in ("foo_to", "foo_to_neg")]
        self.de = [deserialization_method(T, conversion=C(ns["q_from"], sub_conversion=ns[f])) for f in ("foo_from", "foo_from_neg")]
        self.VE = ValidationError
        self.bounds = bounds_of(job)
        self.functions = sorted(set(sum((method_classes(self_of(m)) for m in self.ser + self.de), []))) + [
            "apischema.serialization.serialization_method_factory (@cache, keyed by the conversion)"
        ]
        self.expect_tags = ["compared"]
        self.assumptions = []
        self.relax = ()

    def body(self, ctx: Ctx):
        xs = [ctx.int("x") for _ in range(ctx.choice(3, "len"))]
        ctx.witness = xs
        ctx.run_phase()
        ctx.notes["tag:compared"] = True
        Q, Foo = self.ns["Q"], self.ns["Foo"]
        v = Q([Foo(x) for x in xs])
        for i, sign in ((0, 1), (1, -1)):
            out = self.ser[i](v)
            if not same(out, [sign * x for x in xs]):
                return Failure("sub_conversion-of-another-conversion-applied", witness=xs, extra={"which": i, "out": out})
            back = self.de[i](list(xs))
            if not same(back.items, [Foo(sign * x) for x in xs]):
                return Failure("sub_conversion-of-another-conversion-applied", witness=xs, extra={"which": i, "back": back.items})
        return None


def make(job):
    if job["variant"] == "subpair":
        return SubPair(job)
    return Recursive(job) if job["variant"] == "recursive" else Inst(job)
